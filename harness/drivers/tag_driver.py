"""C11: generated functions with tag assignments on parameters / annotated assignments / return, and tag selectors.

usage: python -m harness.drivers.tag_driver TIER SEED OUT.json
"""
import importlib.util
import itertools
import json
import os
import random
import sys
import tempfile

from ptera import tag as TAG
from ptera.interpret import Immediate, Interactor
from ptera.overlay import BaseOverlay, tooled
from ptera.probe import probing
from ptera.selector import select

# tag names are identifiers: letters, digits, underscores (the string spelling "@V1" and the object spelling tag.V1 name one tag)
ALPHA = ["A", "V1", "V_2"]


def ann_forms(tags, rng):
    """render a tag list as annotation source, string form or object form, with order/repetition noise"""
    if not tags:
        return rng.choice(["", ": int"]) if True else ""
    t = list(tags)
    rng.shuffle(t)
    if rng.random() < 0.4 and len(t) < 3:
        t.append(rng.choice(t))
    if rng.random() < 0.5:
        return ': "' + rng.choice([" & ", "&", "  &  "]).join("@" + x for x in t) + '"'
    return ": " + " & ".join("tag." + x for x in t)


def ret_form(tags, rng):
    if not tags:
        return ""
    return " -> " + " & ".join("tag." + x for x in tags)


def gen_function(i, rng):
    def pick():
        r = rng.random()
        if r < 0.35:
            return []
        return sorted(rng.sample(ALPHA, rng.choice([1, 1, 2, 3])))
    cfg = {"p": pick(), "q": pick(), "rest": pick(), "kw": pick(), "a": pick(), "c": pick(), "ret": pick(), "b2": pick() or [ALPHA[0]], "c2": pick() or [ALPHA[1]], "p2": pick() or [ALPHA[2]]}

    def must(tags):
        s = ann_forms(tags, rng)
        return s if s.strip(": ") not in ("", "int") else ': "@' + tags[0] + '"'
    src = (f"def t{i}(p{ann_forms(cfg['p'], rng)}, q{ann_forms(cfg['q'], rng)}, *rest{ann_forms(cfg['rest'], rng)}, **kw{ann_forms(cfg['kw'], rng)}){ret_form(cfg['ret'], rng)}:\n"
           f"    a{ann_forms(cfg['a'], rng)} = p + 1\n    b = q + 2\n    a = a + b\n    c{ann_forms(cfg['c'], rng)} = a * 2\n"
           f"    b{must(cfg['b2'])} = b + 1\n    c{must(cfg['c2'])} = c + 1\n    p{must(cfg['p2'])} = p + 1\n    return c\n")
    return cfg, src


def main():
    tier, seed, outp = sys.argv[1], int(sys.argv[2]), sys.argv[3]
    rng = random.Random(seed)
    nfun = 40 if tier == "quick" else 400
    work = tempfile.mkdtemp(prefix="tagw-")
    cfgs, srcs = [], ["from ptera import tag\n"]
    for i in range(nfun):
        cfg, src = gen_function(i, rng)
        cfgs.append(cfg)
        srcs.append(src)
    path = os.path.join(work, "tagworld_gen.py")
    open(path, "w").write("\n".join(srcs))
    spec = importlib.util.spec_from_file_location("tagworld_gen", path)
    mod = importlib.util.module_from_spec(spec)
    sys.modules["tagworld_gen"] = mod
    spec.loader.exec_module(mod)
    cases = []
    P0, Q0 = 3, 5
    # function position: a second copy of the module, all functions tooled in place, one overlay with '$f:@T > c'
    spec2 = importlib.util.spec_from_file_location("tagworld_gen2", path)
    mod2 = importlib.util.module_from_spec(spec2)
    sys.modules["tagworld_gen2"] = mod2
    spec2.loader.exec_module(mod2)
    for i in range(nfun):
        tooled.inplace(getattr(mod2, f"t{i}"))
    for T in ALPHA:
        got = []
        sel = select(f"$f:@{T} > c", env={"tag": TAG})
        with BaseOverlay(Immediate(sel, trigger=lambda d: got.append(d["c"].value))):
            fired = []
            for i in range(nfun):
                n0 = len(got)
                getattr(mod2, f"t{i}")(P0, Q0)
                fired.append(len(got) - n0)
        cases.append({"id": len(cases), "kind": "fnpos", "T": T, "var": "", "text": f"$f:@{T} > c", "rets": [c["ret"] for c in cfgs],
                      "fired": fired, "outcome": "ok", "stream": [], "interacted": [], "cfg": {"p": [], "q": [], "rest": [], "kw": [], "a": [], "c": [], "ret": [], "b2": [], "c2": [], "p2": []}})
    # tag algebra with object identity (TagHeap.tla): random expression histories over a heap of real tag objects;
    # after every operation the denotation of EVERY object so far is read back through match_tag
    from ptera.tags import match_tag
    ALPHA4 = ALPHA + ["D"]
    EMPTY = {"p": [], "q": [], "rest": [], "kw": [], "a": [], "c": [], "ret": [], "b2": [], "c2": [], "p2": []}
    for _ in range(150 if tier == "quick" else 3000):
        objs, ops, snaps = [], [], []
        for _step in range(rng.randint(3, 9)):
            if len(objs) < 2 or rng.random() < 0.3:
                n = rng.choice(ALPHA4)
                obj, op = getattr(TAG, n), {"op": "tag", "n": n, "i": 0, "j": 0}
            else:
                i, j = rng.randrange(len(objs)), rng.randrange(len(objs))
                obj, op = objs[i] & objs[j], {"op": "and", "n": "", "i": i + 1, "j": j + 1}
            objs.append(obj)
            ops.append(op)
            snaps.append([[n for n in ALPHA4 if match_tag(getattr(TAG, n), o)] for o in objs])
        cases.append({"id": len(cases), "kind": "algebra", "T": "", "var": "", "text": " ; ".join(f"{o['op']}({o['n'] or str(o['i']) + ',' + str(o['j'])})" for o in ops),
                      "ops": ops, "snaps": snaps, "outcome": "ok", "stream": [], "interacted": [], "cfg": EMPTY})
    # declared-only tagged variables: `z: T` without a value is a binding exactly when a probe supplies it; a tag
    # selector reaches it iff its annotation (string or object spelling) carries the tag
    nd = 12 if tier == "quick" else 120
    dsrc, dcfgs = ["from ptera import tag\n"], []
    for i in range(nd):
        zt = sorted(rng.sample(ALPHA, rng.choice([1, 1, 2])))
        pt = sorted(rng.sample(ALPHA, rng.choice([0, 1, 1, 2])))
        dcfgs.append({"z": zt, "p": pt})
        dsrc.append(f"def u{i}(p{ann_forms(pt, rng) if pt else ''}):\n    k = 1\n    z{ann_forms(zt, rng)}\n    r = z + p\n    return r\n")
    dpath = os.path.join(work, "tagworld_decl.py")
    open(dpath, "w").write("\n".join(dsrc))
    spec3 = importlib.util.spec_from_file_location("tagworld_decl", dpath)
    mod3 = importlib.util.module_from_spec(spec3)
    sys.modules["tagworld_decl"] = mod3
    spec3.loader.exec_module(mod3)
    for i, dc in enumerate(dcfgs):
        fn = getattr(mod3, f"u{i}")
        for T in ALPHA:
            for form in ("$x", "*"):
                text = f"u{i} > {form}:@{T}"
                names, result, outcome = [], -1, "ok"
                try:
                    pr = probing(text, env={f"u{i}": fn, "tag": TAG}, overridable=True, raw=True)
                    pr.subscribe(lambda d: names.extend(c.name for c in d.values()))
                    pr.override(70)
                    with pr:
                        result = fn(P0)
                except NameError:
                    outcome = "NameError"
                except Exception as ex:
                    outcome = type(ex).__name__
                cases.append({"id": len(cases), "kind": "decl", "T": T, "var": "", "text": text, "cfg": dc, "outcome": outcome,
                              "result": result if isinstance(result, int) else -1, "names": names, "stream": [], "interacted": []})
    interacted = []
    orig_interact = Interactor.interact

    def spy(self, *args, **kwargs):
        interacted.append(args[0] if args else kwargs.get("varname"))
        return orig_interact(self, *args, **kwargs)
    Interactor.interact = spy
    for i, cfg in enumerate(cfgs):
        fn = getattr(mod, f"t{i}")
        env = {f"t{i}": fn, "tag": TAG}
        sels = [("generic", T, "", f"t{i} > $x:@{T}") for T in ALPHA] + [("star", T, "", f"t{i} > *:@{T}") for T in ALPHA[:2]] \
            + [("named", T, v, f"t{i} > {v}:@{T}") for T in ALPHA[:2] for v in ("p", "a", "c", "b", "rest", "kw")] \
            + [("all", "", "", f"t{i} > $x")] + [("ctx", T, "", f"t{i}($x:@{T}) > c") for T in ALPHA[:1]]
        if tier == "quick":
            sels = rng.sample(sels, 8)
        for kind, T, v, text in sels:
            interacted.clear()
            outcome = "ok"
            stream = []
            try:
                with probing(text, env=env, raw=True) as p:
                    p.subscribe(lambda d: stream.append(sorted([k if not k.startswith("/") else "/", c.name, c.value if isinstance(c.value, int) and not isinstance(c.value, bool) else -1] for k, c in d.items())))
                    fn(P0, Q0)
            except Exception as ex:
                outcome = type(ex).__name__
            cases.append({"id": len(cases), "kind": kind, "T": T, "var": v, "text": text, "cfg": cfg, "outcome": outcome,
                          "stream": stream, "interacted": list(interacted)})
    Interactor.interact = orig_interact
    json.dump(cases, open(outp, "w"))
    import shutil
    shutil.rmtree(work, ignore_errors=True)
    print(len(cases))


if __name__ == "__main__":
    main()
