"""Evaluate the real ptera.tools predicates on an integer box and throttle on short sequences.
usage: python -m harness.drivers.tools_driver TIER SEED OUT.json"""
import itertools
import json
import random
import sys

from ptera import tools


def main():
    tier, seed, out = sys.argv[1], int(sys.argv[2]), sys.argv[3]
    big = tier == "thorough"
    N = range(1, 8 if big else 5)
    SR = range(-10, 11) if big else range(-4, 5)
    ER = range(-10, 13) if big else range(-4, 8)
    VR = range(-20, 26) if big else range(-10, 12)
    cases = []
    for n in N:
        for s in SR:
            for v in VR:
                cases.append({"k": "every", "n": n, "s": s, "e": 0, "hasE": False, "v": v,
                              "res": bool(tools.every(n, s)(v))})
                for e in (ER if (big and n <= 3) or not big else ()):
                    cases.append({"k": "every", "n": n, "s": s, "e": e, "hasE": True, "v": v,
                                  "res": bool(tools.every(n, s, e)(v))})
    for s in SR:
        for e in ER:
            for v in VR:
                cases.append({"k": "between", "n": 0, "s": s, "e": e, "hasE": True, "v": v,
                              "res": bool(tools.between(s, e)(v))})
    for k in ("lt", "gt", "lte", "gte"):
        for n in SR:
            for v in VR:
                cases.append({"k": k, "n": n, "s": 0, "e": 0, "hasE": False, "v": v, "res": bool(getattr(tools, k)(n)(v))})
    # throttle: all sequences over a small value range up to length L, plus random longer ones
    L = 5 if big else 4
    for period in (1, 2, 3):
        for ln in range(1, L + 1):
            for vs in itertools.product(range(0, 5), repeat=ln):
                t = tools.throttle(period)
                cases.append({"k": "throttle", "n": period, "vs": list(vs), "res": [bool(t(x)) for x in vs]})
    rng = random.Random(seed)
    for _ in range(3000 if big else 300):
        period = rng.randint(1, 5)
        vs = [rng.randint(0, 30) for _ in range(rng.randint(5, 12))]
        if rng.random() < 0.5:
            vs.sort()
        t = tools.throttle(period)
        cases.append({"k": "throttle", "n": period, "vs": vs, "res": [bool(t(x)) for x in vs]})
    json.dump(cases, open(out, "w"))
    print(len(cases))


if __name__ == "__main__":
    main()
