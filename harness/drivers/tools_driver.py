"""Evaluate the real ptera.tools predicates on an integer box and throttle on short sequences.
usage: python -m harness.drivers.tools_driver TIER SEED OUT.json"""
import itertools
import json
import random
import sys

from ptera import tools


def main():
    tier, seed, out = sys.argv[1], int(sys.argv[2]), sys.argv[3]
    big = tier == "thorough"
    N = range(1, 8 if big else 5)
    SR = range(-10, 11) if big else range(-4, 5)
    ER = range(-10, 13) if big else range(-4, 8)
    VR = range(-20, 26) if big else range(-10, 12)
    cases = []
    for n in N:
        for s in SR:
            for v in VR:
                cases.append({"k": "every", "n": n, "s": s, "e": 0, "hasE": False, "v": v,
                              "res": bool(tools.every(n, s)(v))})
                for e in (ER if (big and n <= 3) or not big else ()):
                    cases.append({"k": "every", "n": n, "s": s, "e": e, "hasE": True, "v": v,
                                  "res": bool(tools.every(n, s, e)(v))})
    for s in SR:
        for e in ER:
            for v in VR:
                cases.append({"k": "between", "n": 0, "s": s, "e": e, "hasE": True, "v": v,
                              "res": bool(tools.between(s, e)(v))})
    for k in ("lt", "gt", "lte", "gte"):
        for n in SR:
            for v in VR:
                cases.append({"k": k, "n": n, "s": 0, "e": 0, "hasE": False, "v": v, "res": bool(getattr(tools, k)(n)(v))})
    # throttle: all sequences over a small value range up to length L, plus random longer ones
    L = 5 if big else 4
    for period in (1, 2, 3):
        for ln in range(1, L + 1):
            for vs in itertools.product(range(0, 5), repeat=ln):
                t = tools.throttle(period)
                cases.append({"k": "throttle", "n": period, "vs": list(vs), "res": [bool(t(x)) for x in vs]})
    rng = random.Random(seed)
    for _ in range(3000 if big else 300):
        period = rng.randint(1, 5)
        vs = [rng.randint(0, 30) for _ in range(rng.randint(5, 12))]
        if rng.random() < 0.5:
            vs.sort()
        t = tools.throttle(period)
        cases.append({"k": "throttle", "n": period, "vs": vs, "res": [bool(t(x)) for x in vs]})
    # throttle inside a selector, end to end: the predicate object lives in the compiled selector and is asked once per
    # candidate event, in order - also across calls and when a value comes back (nested loops, a second call)
    from ptera.probe import probing

    def work(seq):
        total = 0
        for item in seq:
            j = item
            total = total + 1
        return total

    for _ in range(400 if big else 60):
        period = rng.randint(1, 4)
        calls = [[rng.randint(0, 8) for _ in range(rng.randint(1, 6))] for _ in range(rng.randint(1, 3))]
        if rng.random() < 0.5:
            calls = [sorted(c) for c in calls]
        if rng.random() < 0.5:
            calls.append(list(calls[0]))                      # the same values again in a later call
        got = []
        override = rng.random() < 0.4
        with probing(f"work(j~throttle({period})) > total", env={"work": work, "throttle": tools.throttle}, overridable=override) as p:
            p.subscribe(lambda d: got.append((d.get("j"), d["total"])))
            if override:
                p.override(lambda d: d["total"])
            for c in calls:
                work(c)
        # total is bound once per item (and once before the loop, when j is not captured yet: no condition applies to it)
        vs, res, k = [], [], 0
        for c in calls:
            assert got[k][1] == 0 or True
            k += 1                                            # the initial binding total = 0
            for n, item in enumerate(c):
                fired = k < len(got) and got[k] == (item, n + 1)
                vs.append(item)
                res.append(fired)
                if fired:
                    k += 1
        cases.append({"k": "throttle", "n": period, "vs": vs, "res": res, "e2e": True, "leftover": len(got) - k})
    json.dump(cases, open(out, "w"))
    print(len(cases))


if __name__ == "__main__":
    main()
