"""C09, the caller's side: a generator advanced step by step inside an instrumented caller whose variable changes.

usage: python -m harness.drivers.staged_driver CASES.json OUT.json
case: {"id", "form": "capture"|"cond", "k": stage, "stages": [[stage, generator], ...] (stages non-decreasing), "mode": "probe"|"overlay"}
"""
import json
import sys

from harness.worlds import lifeworld as LW
from ptera.interpret import Immediate
from ptera.overlay import BaseOverlay, HandlerCollection, tooled
from ptera.probe import probing
from ptera.selector import select

ENV = {"outer": LW.outer, "gen": LW.gen, "g": LW.g, "top": LW.top}


def run_case(c):
    text = "outer(stage) > gen > a" if c["form"] == "capture" else f"outer(stage={c['k']}) > gen > a"
    if c.get("deep"):
        text = "top > " + text
    entry = LW.top if c.get("deep") else LW.outer
    events, gens, outcome = [], {}, "ok"

    def run(stage):
        if stage == 0:
            # the generators are made before the caller has assigned its variable for the first time
            for gi in sorted({g for _, g in c["stages"]}):
                gens[gi] = LW.gen(9)
        for st, gi in c["stages"]:
            if st == stage:
                next(gens[gi])
    try:
        if c["mode"] == "overlay":
            h = Immediate(select(text, env=ENV), trigger=lambda d: events.append([d["stage"].value if "stage" in d else 0, d["a"].value]))
            with BaseOverlay(h):
                entry(run)
        else:
            with probing(text, env=ENV) as p:
                p.subscribe(lambda d: events.append([d.get("stage", 0), d["a"]]))
                entry(run)
    except Exception as ex:
        outcome = type(ex).__name__
    for g in gens.values():
        try:
            g.close()
        except Exception:
            pass
    HandlerCollection.current.set(None)
    return dict(c, events=events, outcome=outcome)


def main():
    cases = json.load(open(sys.argv[1]))
    if any(c["mode"] == "overlay" for c in cases):
        for fn in (LW.outer, LW.gen, LW.g, LW.top):
            tooled.inplace(fn)
    json.dump([run_case(c) for c in cases], open(sys.argv[2], "w"))
    print(len(cases))


if __name__ == "__main__":
    main()
