"""C09: a generator that iterates over another instrumented generator, ended from outside (TraceRelay.tla).
usage: python -m harness.drivers.relay_driver <cases.json> <out.json>
case: {"id", "n": values the inner generator yields, "steps": number of next() calls, "end": "close"|"drop"|"exhaust"|"leave",
       "mode": "probe"|"tooled"}
Every step records: the identity of the current handler collection (numbered in order of first appearance, 0 = none) and the
number of events each probe has received so far.
"""
import gc
import json
import sys

from harness.worlds import lifeworld as LW
from ptera import probing
from ptera.overlay import HandlerCollection


def run_case(c):
    ids = {}

    def cur():
        x = HandlerCollection.current.get()
        return 0 if x is None else ids.setdefault(id(x), len(ids) + 1)
    keep = []          # collections stay alive so that identities are not recycled
    recv = {"inner": [], "path": []}
    steps = []

    def snap(op):
        keep.append(HandlerCollection.current.get())
        steps.append({"op": op, "cur": cur(), "inner": len(recv["inner"]), "path": len(recv["path"])})
    env = {"gen": LW.gen, "g": LW.g, "relay": LW.relay}
    snap("start")
    p1 = probing("gen > g > a", env=env)
    p1.subscribe(lambda d: recv["inner"].append(d["a"]))
    p2 = probing("relay > gen > g > a", env=env)
    p2.subscribe(lambda d: recv["path"].append(d["a"]))
    with p1, p2:
        snap("enter")
        it = LW.relay(c["n"])
        snap("create")
        alive = True
        for _ in range(c["steps"]):
            try:
                next(it)
            except StopIteration:
                alive = False
            snap("next")
        if c["end"] == "close":
            it.close()
        elif c["end"] == "drop":
            del it
            gc.collect()
        elif c["end"] == "exhaust":
            for _ in it:
                pass
        if c["end"] != "leave":
            snap("end")
            LW.g(5)
            snap("call")
    snap("exit")
    if c["end"] == "leave":
        it.close()
        snap("end")
    LW.g(6)
    snap("call")
    return dict(c, trace=steps)


def main():
    cases = json.load(open(sys.argv[1]))
    json.dump([run_case(c) for c in cases], open(sys.argv[2], "w"))


if __name__ == "__main__":
    main()
