"""Skeleton programs: enumerate control-flow paths, run each path plain / twin / instrumented, record traces.

usage: python -m harness.drivers.prog_driver JOB.json OUT.json
JOB: {"progs": [...], "opts": {"maxiter": 2, "maxraise": 1, "kinds": [...], "maxpaths": 40, "seed": 0,
                               "variants": ["tooled", "inplace", "singles", "all", "generic", "pairs"]}}
"""
import importlib.util
import itertools
import json
import os
import random
import sys
import tempfile

from harness import ir as I
from harness.worlds import rt2

from ptera.overlay import tooled
from ptera.probe import probing


def sval(x):
    return [str(v) for v in x]


class Runner:
    def __init__(self, prog, workdir):
        self.prog = prog
        self.name = prog["name"]
        self.paths = {}
        for twin in (False, True):
            p = os.path.join(workdir, f"{self.name}_{'twin' if twin else 'plain'}.py")
            with open(p, "w") as fh:
                fh.write(I.render(prog, twin=twin))
            self.paths[twin] = p
        self.count = 0
        self.first = None

    def load(self, twin=False):
        self.count += 1
        modname = f"skel_{self.name}_{'t' if twin else 'p'}_{self.count}"
        spec = importlib.util.spec_from_file_location(modname, self.paths[twin])
        mod = importlib.util.module_from_spec(spec)
        sys.modules[modname] = mod
        mod.GR = 77
        mod.GN = None            # a module global that exists and holds None
        spec.loader.exec_module(mod)
        return mod

    def call(self, mod, fn, script, drive=None):
        """run fn(90) on script; returns (log, result); propagates NeedDecision.
        Programs with a `shadow` name are called twice: the module starts shadowing that builtin between the calls."""
        shadow = self.prog.get("shadow")
        if shadow and hasattr(mod, shadow):
            delattr(mod, shadow)
        if self.prog.get("precall"):
            # two calls; when the function gets instrumented, the first call was made BEFORE that (run_variant did it):
            # whatever state the function keeps between calls (mutable defaults) must carry over
            first = self.first if self.first is not None else self.call1(mod, fn, script)
            self.first = None
            log2, result2 = self.call1(mod, fn, script)
            return first[0] + [["second-call"]] + log2, first[1] + ["|"] + result2
        log, result = self.call1(mod, fn, script)
        if shadow:
            setattr(mod, shadow, rt2.SHADOW)
            try:
                log2, result2 = self.call1(mod, fn, script)
            finally:
                delattr(mod, shadow)
            log = log + [["second-call"]] + log2
            result = result + ["|"] + result2
        return log, result

    def call1(self, mod, fn, script, made=None):
        """made: a generator object created earlier (after rt2.reset) - it is only driven here"""
        if made is None:
            rt2.reset(script)
        if hasattr(mod, "GV"):
            del mod.GV
        try:
            r = fn(90) if made is None else made
            if self.prog.get("gen"):
                r = self.drive(r)
            if rt2.PENDING[0] is not None:
                # a decision request was swallowed by the program itself (break / return in a finally block)
                raise rt2.NeedDecision(*rt2.PENDING[0])
            result = ["return", rt2.enc(r)]
        except rt2.NeedDecision:
            raise
        except rt2.BadScript:
            raise
        except BaseException as ex:
            if rt2.PENDING[0] is not None:
                raise rt2.NeedDecision(*rt2.PENDING[0])
            result = ["raise", rt2.enc(ex), ("NameError:" if isinstance(ex, NameError) else "") + type(ex).__name__]
            if type(ex).__name__ == "PteraNameError":
                try:
                    info = ex.info()
                    result = ["raise", rt2.enc(ex), "NameError:PteraNameError", str(ex.varname), str(info.get("provenance")),
                              "ann:" + ("none" if info.get("annotation") is None else "unannotated" if rt2.enc(info.get("annotation")) == "ABSENT" else str(info.get("annotation")))]
                except Exception as ex2:
                    result = ["raise", rt2.enc(ex), "NameError:PteraNameError", str(getattr(ex, "varname", "?")), "info-failed", type(ex2).__name__]
        log = [sval(e) for e in rt2.LOG]
        if hasattr(mod, "GV"):
            log.append(["global", "GV", rt2.enc(mod.GV)])
        return log, sval(result)

    def drive(self, g):
        """drive a generator: decisions ['Y', 0, action, value] at every suspension"""
        sendv = None
        first = True
        try:
            while True:
                v = g.send(sendv) if not first else next(g)
                first = False
                rt2.LOG.append(["yielded", rt2.enc(v)])
                d = rt2._take("Y", 0)
                act = d[2]
                rt2.LOG.append(["drive", act, str(d[3])])
                if act == "next":
                    sendv = None
                elif act == "send":
                    sendv = d[3]
                elif act == "close":
                    g.close()
                    return "closed"
                elif act == "throw":
                    first = True
                    v = g.throw(rt2.ScriptExc(d[3]))
                    rt2.LOG.append(["yielded", rt2.enc(v)])
                    rt2.LOG.append(["drive", "next", "0"])
                    first = False
                    sendv = None
        except StopIteration as stop:
            return stop.value


def options(nd, script, opts, prog):
    raises = sum(1 for d in script if (d[0] in ("E", "R") and d[-1] is True) or (d[0] == "N" and d[2] == "raise")
                 or (d[0] == "Y" and d[2] == "throw"))
    val = 10 * (len(script) + 1)
    k = nd.site
    if nd.kind == "E":
        out = [["E", k, val, False]]
        if raises < opts["maxraise"] and opts.get("raise_E"):
            out.append(["E", k, val, True])
        return out
    if nd.kind == "C":
        return [["C", k, True], ["C", k, False]]
    if nd.kind == "R":
        out = [["R", k, False]]
        if raises < opts["maxraise"]:
            out.append(["R", k, True])
        return out
    if nd.kind == "N":
        taken = sum(1 for d in script if d[0] == "N" and d[1] == k and d[2] == "val")
        out = [["N", k, "stop", 0]]
        if taken < opts["maxiter"]:
            shape = opts.get("_forshapes", {}).get(k)
            if shape:
                # a tuple loop target: the iteration value has the target's shape, distinct integers at the leaves
                ctr = [val]

                def fill(sh):
                    if isinstance(sh, list):
                        return [fill(x) for x in sh]
                    ctr[0] += 1
                    return ctr[0]
                out.insert(0, ["N", k, "val", fill(shape)])
            else:
                out.insert(0, ["N", k, "val", val])
        return out
    if nd.kind == "U":
        n = opts["_ntargets"].get(k, 2)
        return [["U", k, kind, n, val] for kind in opts["kinds"]]
    if nd.kind == "Y":
        out = [["Y", 0, "next", 0]]
        ys = sum(1 for d in script if d[0] == "Y")
        special = sum(1 for d in script if d[0] == "Y" and d[2] != "next")
        if opts.get("gen_drive") and special < 1 and ys < 4:
            out += [["Y", 0, "send", val], ["Y", 0, "close", 0], ["Y", 0, "throw", val]]
        if ys >= 6:
            out = [["Y", 0, "close", 0]]
        return out
    raise ValueError(nd.kind)


def ntargets(prog):
    out = {}
    for s in I.walk(prog["body"]):
        if s["s"] == "assign" and s["e"].get("e") == "useq":
            t = s["targets"][0]
            out[s["e"]["k"]] = len(t.get("elts", [1]))
    return out


def exotic_paths(runner, paths, opts):
    """every path once more with the values of its expression sites replaced by unusual objects (numbers whose ==
    answers True to everything / has no truth value, floats, True); dropped when that changes the control flow"""
    kinds = opts.get("exotic") or []
    if not kinds:
        return []
    mod = runner.load(twin=True)
    fn = getattr(mod, runner.name)
    out = []
    for i, (script, _log, _res) in enumerate(paths):
        if not any(d[0] == "E" and not d[3] and isinstance(d[2], int) for d in script):
            continue
        kind = kinds[(i + runner.prog.get("id", 0)) % len(kinds)]
        s2 = [([d[0], d[1], f"x:{kind}:{d[2]}", d[3]] if d[0] == "E" and not d[3] and isinstance(d[2], int) else d) for d in script]
        try:
            if runner.prog.get("precall"):
                mod = runner.load(twin=True)
                fn = getattr(mod, runner.name)
            log, res = runner.call(mod, fn, s2)
        except (rt2.NeedDecision, rt2.BadScript):
            continue
        out.append((s2, log, res))
    return out


def forshapes(prog):
    out = {}
    for s in I.walk(prog["body"]):
        if s["s"] == "for" and s["t"]["t"] == "tuple":
            out[s["k"]] = I.ls_shape([s["t"]])
    return out


def enumerate_paths(runner, opts, rng):
    """DFS over decisions with the twin program as the consumer (real Python is the semantics)."""
    mod = runner.load(twin=True)
    fn = getattr(mod, runner.name)
    done = []
    stack = [[]]
    while stack and len(done) < opts["maxpaths"]:
        script = stack.pop()
        if len(script) > 60:
            continue
        try:
            if runner.prog.get("precall"):
                # the function keeps state between calls: every attempt starts from a fresh module
                mod = runner.load(twin=True)
                fn = getattr(mod, runner.name)
            log, result = runner.call(mod, fn, script)
            done.append((script, log, result))
        except rt2.NeedDecision as nd:
            choices = options(nd, script, opts, runner.prog)
            rng.shuffle(choices)
            for c in choices:
                stack.append(script + [c])
    return done


def variants(prog, opts, rng):
    names = [n for n in I.local_names(prog)]
    out = []
    vs = opts["variants"]
    if prog.get("precall"):
        vs = [v for v in vs if v != "tooled"]        # tooled(fn) makes a NEW function (fresh defaults): not comparable
    if prog.get("gen") and ("singles" in vs or "all" in vs) and names:
        # the generator object is made while a probe is active and only run after the probe has ended
        out.append({"mode": "lategen", "sels": [], "late": names[-1]})
    if "tooled" in vs:
        out.append({"mode": "tooled", "sels": []})
    if "inplace" in vs:
        out.append({"mode": "inplace", "sels": []})
    if "singles" in vs:
        for n in names:
            out.append({"mode": "probe", "sels": [{"focus": n, "ctx": []}]})
    if "all" in vs and len(names) > 1:
        out.append({"mode": "probe", "sels": [{"focus": n, "ctx": []} for n in names]})
    if "generic" in vs:
        out.append({"mode": "probe", "sels": [{"focus": "$x", "ctx": []}]})
    if "totals" in vs and names:
        out.append({"mode": "totalprobe", "sels": [{"focus": names[0], "ctx": []}]})
        if len(names) > 1:
            out.append({"mode": "totalprobe", "sels": [{"focus": names[0], "ctx": names[1:3]}]})
    if "pairs" in vs:
        pairs = [(a, b) for a in names for b in names if a != b]
        rng.shuffle(pairs)
        for a, b in pairs[:opts.get("npairs", 3)]:
            out.append({"mode": "probe", "sels": [{"focus": a, "ctx": [b]}]})
        trip = [(a, b, c) for a in names for b in names for c in names if len({a, b, c}) == 3]
        rng.shuffle(trip)
        for a, b, c in trip[:1]:
            out.append({"mode": "probe", "sels": [{"focus": a, "ctx": [b, c]}]})
    if "supply" in vs and (prog.get("decl") or {}).get("var"):
        dv = prog["decl"]["var"]
        out.append({"mode": "tweak", "sels": [{"focus": dv, "ctx": []}], "supply": 555})
        out.append({"mode": "ovprobe", "sels": [{"focus": dv, "ctx": []}], "supply": 556})
        out.append({"mode": "ovprobe", "sels": [{"focus": dv, "ctx": []}], "supply": 566, "kspell": True})
        out.append({"mode": "tweak_cond", "sels": [{"focus": dv, "ctx": []}], "supply": 557})
        out.append({"mode": "tweak", "sels": [{"focus": dv, "ctx": []}], "supply": 560, "decline_inside": True})
        out.append({"mode": "total", "sels": [{"focus": dv, "ctx": [n for n in names if n != dv][:2]}]})
        # history dimension: the function was (closed) / still is (active) instrumented for another variable only
        other = next(n for n in names if n != dv)
        for w in ("closed", "active"):
            out.append({"mode": "ovprobe", "sels": [{"focus": dv, "ctx": []}], "supply": 561, "warm": f"{w}:{other}"})
            out.append({"mode": "probe", "sels": [{"focus": dv, "ctx": []}], "warm": f"{w}:{other}"})
        # an earlier lifetime had the declared variable AND another one instrumented; now a probe wants the other one only: the
        # declaration is a plain declaration again (whatever variants were compiled before)
        out.append({"mode": "probe", "sels": [{"focus": other, "ctx": []}], "warm": f"closedpair:{other}"})
        # a conditional override: it supplies during the first call and declines during the second (same probe, still active)
        out.append({"mode": "ovseq", "sels": [{"focus": dv, "ctx": []}], "supply": 564})
        if prog["decl"].get("tag"):
            # the declared variable reached through its tag only ($v:@T, *:@T), supplying or not
            cat = "$v:@" + prog["decl"]["tag"]
            out.append({"mode": "catprobe", "sels": [{"focus": cat, "ctx": []}], "supply": 562})
            out.append({"mode": "catplain", "sels": [{"focus": cat, "ctx": []}]})
            out.append({"mode": "catprobe", "sels": [{"focus": cat, "ctx": []}], "supply": 563, "warm": f"closed:{other}"})
            out.append({"mode": "catplain", "sels": [{"focus": "*:@" + prog["decl"]["tag"], "ctx": []}], "warm": f"active:{other}"})
        if "var2" in prog["decl"]:
            out.append({"mode": "tweak", "sels": [{"focus": prog["decl"]["var2"], "ctx": []}], "supply": 558})
            out.append({"mode": "tweak2", "sels": [{"focus": dv, "ctx": []}, {"focus": prog["decl"]["var2"], "ctx": []}], "supply": 559})
    if "supply" in vs and prog.get("cat") and not (prog.get("decl") or {}).get("var"):
        # a tag-only selector on a function that also reads an undefined global: the global is none of its business
        out.append({"mode": "catplain", "sels": [{"focus": "$v:@" + prog["cat"], "ctx": []}]})
        out.append({"mode": "catplain", "sels": [{"focus": "*:@" + prog["cat"], "ctx": []}]})
    if "meta" in vs:
        loopvars = sorted({n for s in I.walk(prog["body"]) if s["s"] == "for" for n in I.target_names(s["t"])})
        metas = ["#enter", "#exit", "#value", "#error", "#yield", "#receive"] + [f"#loop_{v}" for v in loopvars] + [f"#endloop_{v}" for v in loopvars]
        out.append({"mode": "meta", "sels": [{"focus": m, "ctx": []} for m in metas], "only": ""})
        if "meta_single" in vs:
            # each meta-variable probed alone: what is delivered must not depend on which others are instrumented
            for m in metas:
                out.append({"mode": "meta", "sels": [{"focus": m, "ctx": []}], "only": m})
    return out


def sel_text(fname, s):
    if s["focus"] == "$x":
        return f"{fname} > $x"
    if s["ctx"]:
        return f"{fname}({', '.join(s['ctx'])}) > {s['focus']}"
    return f"{fname} > {s['focus']}"


def run_variant(runner, var, script):
    rec = {"mode": var["mode"], "sels": var["sels"], "act_err": "", "log": [], "result": [], "streams": [],
           "supply": var.get("supply", 0), "only": var.get("only", "")}
    mod = runner.load(twin=False)
    fn = getattr(mod, runner.name)
    import contextlib
    rec["warm"] = var.get("warm", "")
    wstack = contextlib.ExitStack()
    if rec["warm"]:
        # earlier life of the function: a probe on another variable, already closed or still active
        state, wv = rec["warm"].split(":")
        try:
            text = f"{runner.name} > {wv}" if state != "closedpair" else f"{runner.name}({runner.prog['decl']['var']}) > {wv}"
            wp = probing(text, env={runner.name: fn})
            wp.subscribe(lambda d: None)
            wstack.enter_context(wp)
            if state in ("closed", "closedpair"):
                wstack.close()
        except BaseException as ex:
            rec["act_err"] = "warm:" + type(ex).__name__
            return rec
    with wstack:
        return _run_variant(runner, var, script, mod, fn, rec)


def _run_variant(runner, var, script, mod, fn, rec):
    try:
        if runner.prog.get("precall"):
            runner.first = runner.call1(mod, fn, script)         # the call made before any instrumentation
        if var["mode"] == "tooled":
            fn2 = tooled(fn)
            rec["log"], rec["result"] = runner.call(mod, fn2, script)
        elif var["mode"] == "inplace":
            tooled.inplace(fn)
            rec["log"], rec["result"] = runner.call(mod, fn, script)
        elif var["mode"] in ("tweak", "tweak2", "tweak_cond"):
            from ptera.overlay import Overlay
            tooled.inplace(fn)
            env = {runner.name: fn}
            from ptera.selector import select
            if var["mode"] == "tweak_cond":
                # an override that declines (returns ABSENT): the variable stays unsupplied
                from ptera.utils import ABSENT
                ol = Overlay.rewriting({select(sel_text(runner.name, var["sels"][0]), env=env): (lambda args: ABSENT)})
            else:
                ol = Overlay.tweaking({select(sel_text(runner.name, s), env=env): var["supply"] + i for i, s in enumerate(var["sels"])})
            with ol:
                if var.get("decline_inside"):
                    # a more recent overriding rule on the same variable that declines: the outer supply must still apply
                    from ptera.utils import ABSENT
                    with Overlay.rewriting({select(sel_text(runner.name, var["sels"][0]), env=env): (lambda args: ABSENT)}):
                        rec["log"], rec["result"] = runner.call(mod, fn, script)
                else:
                    rec["log"], rec["result"] = runner.call(mod, fn, script)
        elif var["mode"] == "total":
            # focus-free probe naming the declared variable: its records must never contain the marker
            env = {runner.name: fn}
            s0 = var["sels"][0]
            text = f"{runner.name}({', '.join([s0['focus']] + s0['ctx'])})"
            recs = []
            p = probing(text, env=env, raw=True)
            p.subscribe(lambda d: recs.append(sorted([k, "[" + ",".join(rt2.enc(x) for x in c.values) + "]"] for k, c in d.items())))
            with p:
                rec["log"], rec["result"] = runner.call(mod, fn, script)
            rec["streams"] = [recs]
        elif var["mode"] == "totalprobe":
            # a focus-free probe (Total accumulator) that overrides nothing
            env = {runner.name: fn}
            s0 = var["sels"][0]
            p_ = probing(f"{runner.name}({', '.join([s0['focus']] + s0['ctx'])})", env=env, raw=True)
            recs = []
            p_.subscribe(lambda d_: recs.append(1))
            with p_:
                rec["log"], rec["result"] = runner.call(mod, fn, script)
        elif var["mode"] == "lategen":
            rt2.reset(script)
            with probing(f"{runner.name} > {var['late']}", env={runner.name: fn}) as p_:
                p_.subscribe(lambda d_: None)
                made = fn(90)
            rec["log"], rec["result"] = runner.call1(mod, fn, script, made=made)
        elif var["mode"] == "meta":
            env = {runner.name: fn}
            merged = []
            import contextlib
            with contextlib.ExitStack() as st:
                for s in var["sels"]:
                    p = probing(f"{runner.name} > {s['focus']}", env=env)
                    p.subscribe(lambda dct, name=s["focus"]: merged.append([name, rt2.enc(dct[name])]))
                    st.enter_context(p)
                rec["log"], rec["result"] = runner.call(mod, fn, script)
            rec["streams"] = [merged]
        elif var["mode"] in ("ovprobe", "catprobe"):
            env = {runner.name: fn}
            p = probing(sel_text(runner.name, var["sels"][0]), env=env, overridable=True)
            seen = []          # what the pipeline of the overriding probe is handed (an event like any other)
            p.subscribe(lambda d: seen.append(sorted([k, rt2.enc(v)] for k, v in d.items())))
            if var.get("kspell"):
                # the keyword spelling at the end of a derived pipeline
                p.kfilter(lambda **kw: True).koverride(lambda **kw: var["supply"])
            else:
                p.override(var["supply"])
            with p:
                rec["log"], rec["result"] = runner.call(mod, fn, script)
            rec["streams"] = [seen]
        elif var["mode"] == "ovseq":
            env = {runner.name: fn}
            state = {"on": True}
            p = probing(sel_text(runner.name, var["sels"][0]), env=env, overridable=True)
            seen = []
            p.subscribe(lambda d: seen.append(sorted([k, rt2.enc(v)] for k, v in d.items())))
            p.filter(lambda data: state["on"]).override(var["supply"])
            with p:
                log1, res1 = runner.call(mod, fn, script)
                n1 = len(seen)
                state["on"] = False
                log2, res2 = runner.call(mod, fn, script)
            return [dict(rec, mode="ovseq1", log=log1, result=res1, streams=[seen[:n1]]), dict(rec, mode="ovseq2", log=log2, result=res2, streams=[seen[n1:]])]
        elif var["mode"] == "catplain":
            env = {runner.name: fn}
            p = probing(sel_text(runner.name, var["sels"][0]), env=env, raw=True)
            seen = []
            p.subscribe(lambda d: seen.append(sorted([c.name, rt2.enc(c.value)] for c in d.values())))
            with p:
                rec["log"], rec["result"] = runner.call(mod, fn, script)
            rec["streams"] = [seen]
        else:
            env = {runner.name: fn}
            streams = [[] for _ in var["sels"]]
            probes = []
            import contextlib
            with contextlib.ExitStack() as st:
                try:
                    for i, s in enumerate(var["sels"]):
                        raw = s["focus"] == "$x"
                        p = probing(sel_text(runner.name, s), env=env, raw=raw)
                        if raw:
                            # the events are kept as delivered and read once the call is over: what was delivered must not change
                            p.subscribe(lambda d, i=i: streams[i].append(d))
                        else:
                            p.subscribe(lambda d, i=i: streams[i].append(sorted([k, rt2.enc(v)] for k, v in d.items())))
                        st.enter_context(p)
                except rt2.NeedDecision:
                    raise
                except BaseException as ex:
                    rec["act_err"] = type(ex).__name__
                    return rec
                rec["log"], rec["result"] = runner.call(mod, fn, script)
            rec["streams"] = [[sorted([c.name, rt2.enc(c.value)] for c in d.values()) if isinstance(d, dict) else d for d in st] for st in streams]
    except (rt2.NeedDecision, rt2.BadScript) as ex:
        # the instrumented program asked for a decision the reference path does not have: it diverged
        rec["log"] = [sval(e) for e in rt2.LOG]
        rec["result"] = ["diverged", type(ex).__name__, str(getattr(ex, "kind", "")) + "@" + str(getattr(ex, "site", ""))]
    except SyntaxError as ex:
        rec["act_err"] = "SyntaxError"
    except BaseException as ex:
        rec["act_err"] = type(ex).__name__
    return rec


def norm_ir(x):
    """IR for TLC: no nulls (None -> ""), import statements get the bound first component"""
    if isinstance(x, dict):
        y = {k: ({"e": "none"} if v is None and k in ("e", "x") else norm_ir(v)) for k, v in x.items()}
        if y.get("s") == "import":
            y["first"] = y["mod"].split(".")[0]
        return y
    if isinstance(x, list):
        return [norm_ir(v) for v in x]
    return "" if x is None else x


def main():
    job = json.load(open(sys.argv[1]))
    opts = job["opts"]
    rng = random.Random(opts.get("seed", 0))
    work = tempfile.mkdtemp(prefix="skel-")
    sys.path.insert(0, work)
    out = []
    tid = job.get("first_id", 0)
    try:
        for prog in job["progs"]:
            opts["_ntargets"] = ntargets(prog)
            opts["_forshapes"] = forshapes(prog)
            runner = Runner(prog, work)
            paths = enumerate_paths(runner, opts, rng)
            paths = paths + exotic_paths(runner, paths, opts)
            vars_ = variants(prog, opts, rng)
            for script, reflog, refres in paths:
                mod = runner.load(twin=False)
                try:
                    plog, pres = runner.call(mod, getattr(mod, runner.name), script)
                except (rt2.NeedDecision, rt2.BadScript) as ex:
                    plog, pres = [], ["diverged", type(ex).__name__, ""]
                runs = []
                for v in vars_:
                    r = run_variant(runner, v, script)
                    runs.extend(r if isinstance(r, list) else [r])
                tid += 1
                out.append({"id": tid, "pid": prog["id"], "form": prog["form"], "ctx": prog["ctx"], "family": prog["family"],
                            "features": I.features(prog), "names": I.local_names(prog), "gen": bool(prog.get("gen")),
                            "decl": prog.get("decl") or {"var": "", "marker": "", "catches": False},
                            "prog": norm_ir({"params": prog["params"], "body": prog["body"]}) if opts.get("with_prog") else {},
                            "script": [sval(d) for d in script],
                            "ref": {"log": reflog, "result": refres}, "plain": {"log": plog, "result": pres},
                            "runs": runs})
    finally:
        import shutil
        shutil.rmtree(work, ignore_errors=True)
    json.dump(out, open(sys.argv[2], "w"))
    print(json.dumps({"traces": len(out), "runs": sum(len(t["runs"]) for t in out)}))


if __name__ == "__main__":
    main()
