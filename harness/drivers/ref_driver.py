"""C14: absolute references across probing.
usage: python -m harness.drivers.ref_driver CASES.json OUT.json
case: {"id", "place": name, "ops": [["act", pid, "name"|"ref"], ["deact", pid], ["call", v], ["resolve"],
                                     ["nact", pid, key], ["ndeact", pid]]}
Every case runs on a fresh copy of harness/worlds/refworld.py (own file, own module name): what codefind's registry and
ptera's transform cache remember of earlier cases would otherwise leak into the history under test.
"""
import importlib.util
import json
import os
import shutil
import sys
import tempfile

from harness.worlds import refworld as RW0
from ptera import refstring
from ptera.probe import Probe
from ptera.selector import select
from ptera.overlay import HandlerCollection

# place -> (key, by-name text, caller, offset)
PLACES = {
    "top": ("top", "top", lambda M, v: M.top(v), 1),
    "meth": ("Outer.meth", "Outer.meth", lambda M, v: M.Outer().meth(v), 2),
    "inner_meth": ("Outer.Inner.meth", "Outer.Inner.meth", lambda M, v: M.Outer.Inner().meth(v), 3),
    "made": ("make.inner", "made", lambda M, v: M.made(v), 4),
    "deco": ("deco", "deco", lambda M, v: M.deco(v), 5),
    # waypoints: the probed path only passes through the function (no capture in it): '<fn> > top > v'
    "way": ("way", "way", lambda M, v: M.way(v), 1),
    "lid_open": ("Box.Lid.open", "Box.Lid.open", lambda M, v: M.Box.Lid().open(v), 1),
}
WAYPOINTS = {"way", "Box.Lid.open"}
BYNAME = {"top": "top", "meth": "meth", "Outer.meth": "Outer.meth", "Outer.Inner.meth": "Outer.Inner.meth", "make": "make",
          "make.inner": "made", "inner": "inner", "deco": "deco", "way": "way", "Box.Lid.open": "Box.Lid.open"}


RUN_NO = [0]


def functions(M):
    return {"top": M.top, "meth": M.meth, "Outer.meth": M.Outer.meth, "Outer.Inner.meth": M.Outer.Inner.meth, "make": M.make,
            "make.inner": M.made, "inner": M.inner, "deco": M.deco.__wrapped__, "way": M.way, "Box.Lid.open": M.Box.Lid.open}


def tail(key):
    return " > top > v" if key in WAYPOINTS else "() as r" if key == "make" else " > v"


def run_case(c, work):
    name = f"refw_{os.getpid()}_{c['id']}"
    path = os.path.join(work, name + ".py")
    # code objects compare by value (not by file name): shift the copy by a distinct number of lines so that codefind's
    # code-keyed caches cannot confuse the functions of two copies
    RUN_NO[0] += 1
    with open(path, "w") as fh:
        fh.write("\n" * RUN_NO[0] + open(RW0.__file__).read())
    spec = importlib.util.spec_from_file_location(name, path)
    M = importlib.util.module_from_spec(spec)
    sys.modules[name] = M
    spec.loader.exec_module(M)
    base = set(vars(M))
    FN = functions(M)
    env = {"top": M.top, "Outer": M.Outer, "made": M.made, "deco": M.deco, "way": M.way, "Box": M.Box, "meth": M.meth,
           "inner": M.inner, "make": M.make}
    key, byname, caller, off = PLACES[c["place"]]
    fn = FN[key]
    if c.get("inplace"):
        # the function was tooled in place beforehand (tooled.inplace): it is still the function its reference names
        from ptera.overlay import tooled
        tooled.inplace(fn)
    refs, ref_err = {}, ""
    for k, f in FN.items():
        try:
            refs[k] = refstring(M.deco if k == "deco" else f)
        except Exception as ex:
            refs[k] = ""
            if k == key:
                ref_err = type(ex).__name__
    ref = refs[key]
    # a function two function scopes deep answers to its reference string too (not part of the histories)
    try:
        deep_ok = select(refstring(M.deep2) + " > v").element.name is M.deep2
    except Exception:
        deep_ok = False
    back = {id(f): k for k, f in FN.items()}
    probes, recv = {}, {}
    steps = []
    for op in c["ops"]:
        outcome, same, allres = "ok", True, {}
        try:
            if op[0] == "act":
                text = (byname if op[2] == "name" else ref) + tail(key)
                p = Probe(text, env=env)
                recv[op[1]] = []
                p.subscribe(lambda d, k=op[1]: recv[k].append(d["v"]))
                probes[op[1]] = p
                p.__enter__()
            elif op[0] == "nact":
                p = Probe(BYNAME[op[2]] + tail(op[2]), env=env)
                p.subscribe(lambda d: None)
                probes[op[1]] = p
                p.__enter__()
            elif op[0] == "badact":
                # an activation that is refused (the function has no such variable): nothing changes, also not for references
                try:
                    Probe(byname + " > no_such_variable_here", env=env).__enter__()
                    outcome = "accepted"
                except Exception as ex:
                    outcome = "refused:" + type(ex).__name__
            elif op[0] in ("deact", "ndeact"):
                probes[op[1]].__exit__(None, None, None)
            elif op[0] == "call":
                r = caller(M, op[1])
                same = (r == op[1] + off)
            elif op[0] == "resolve":
                got = select(ref + " > v").element.name
                same = got is fn
                if key not in WAYPOINTS and key != "make":
                    # the other symbols of a selector that starts with a reference are resolved where it is written: a local name
                    from ptera import tag as _tag
                    loc_only_here = _tag.Zed
                    same = same and select(ref + " > v:loc_only_here").element.name is fn
                # ... and every other function of the module still answers to its own reference
                for k, rf in refs.items():
                    try:
                        g = select(rf + " > v").element.name
                        allres[k] = back.get(id(g), "?")
                    except Exception:
                        allres[k] = "ERR"
        except Exception as ex:
            outcome = type(ex).__name__
        steps.append({"op": op, "outcome": outcome, "same": same, "all": allres, "recv": {k: list(v) for k, v in recv.items()}})
    for k, p in probes.items():
        try:
            p.__exit__(None, None, None)
        except Exception:
            pass
    HandlerCollection.current.set(None)
    # probing must not leave anything behind in the function's module (ptera's own __ptera* helpers excepted)
    stray = sorted(str(k) for k in vars(M) if k not in base and not str(k).startswith(("__ptera", "_ptera__")))
    sys.modules.pop(name, None)
    return {"id": c["id"], "place": c["place"], "key": key, "inplace": bool(c.get("inplace")), "deep_ok": deep_ok, "ref": ref, "ref_err": ref_err, "off": off, "steps": steps, "stray": stray}


def main():
    cases = json.load(open(sys.argv[1]))
    work = tempfile.mkdtemp(prefix="refw-")
    sys.path.insert(0, work)
    try:
        out = [run_case(c, work) for c in cases]
    finally:
        shutil.rmtree(work, ignore_errors=True)
    json.dump(out, open(sys.argv[2], "w"))
    print(len(out))


if __name__ == "__main__":
    main()
