"""C14: absolute references across probing.
usage: python -m harness.drivers.ref_driver CASES.json OUT.json
case: {"id", "place": name, "ops": [["act", pid, "name"|"ref"], ["deact", pid], ["call", v], ["resolve"]]}
"""
import json
import sys

from harness.worlds import refworld as RW
from ptera import refstring
from ptera.probe import Probe
from ptera.selector import select
from ptera.overlay import HandlerCollection

PLACES = {
    "top": (RW.top, "top", lambda v: RW.top(v), 1),
    "meth": (RW.Outer.meth, "Outer.meth", lambda v: RW.Outer().meth(v), 2),
    "inner_meth": (RW.Outer.Inner.meth, "Outer.Inner.meth", lambda v: RW.Outer.Inner().meth(v), 3),
    "made": (RW.made, "made", lambda v: RW.made(v), 4),
    "deco": (RW.deco.__wrapped__, "deco", lambda v: RW.deco(v), 5),
    # waypoints: the probed path only passes through the function (no capture in it): '<fn> > top > v'
    "way": (RW.way, "way", lambda v: RW.way(v), 1),
    "lid_open": (RW.Box.Lid.open, "Box.Lid.open", lambda v: RW.Box.Lid().open(v), 1),
}
WAYPOINTS = {"way", "lid_open"}
BASE = set(vars(RW))
ENV = {"top": RW.top, "Outer": RW.Outer, "made": RW.made, "deco": RW.deco, "way": RW.way, "Box": RW.Box}


def run_case(c):
    fn, byname, caller, off = PLACES[c["place"]]
    ref_target = RW.deco if c["place"] == "deco" else fn
    try:
        ref = refstring(ref_target)
        ref_err = ""
    except Exception as ex:
        ref, ref_err = "", type(ex).__name__
    probes, recv = {}, {}
    steps = []
    for op in c["ops"]:
        outcome, same = "ok", True
        try:
            if op[0] == "act":
                text = (byname if op[2] == "name" else ref) + (" > top > v" if c["place"] in WAYPOINTS else " > v")
                p = Probe(text, env=ENV)
                recv[op[1]] = []
                p.subscribe(lambda d, k=op[1]: recv[k].append(d["v"]))
                probes[op[1]] = p
                p.__enter__()
            elif op[0] == "deact":
                probes[op[1]].__exit__(None, None, None)
            elif op[0] == "call":
                r = caller(op[1])
                same = (r == op[1] + off)
            elif op[0] == "resolve":
                got = select(ref + " > v").element.name
                same = got is fn
        except Exception as ex:
            outcome = type(ex).__name__
        steps.append({"op": op, "outcome": outcome, "same": same, "recv": {k: list(v) for k, v in recv.items()}})
    for k, p in probes.items():
        try:
            p.__exit__(None, None, None)
        except Exception:
            pass
    HandlerCollection.current.set(None)
    st = getattr(fn, "__ptera_stack__", None)
    if st is not None:
        st.instrument_count = 0
        st.captures.clear()
        st._apply(fn)
    # probing must not leave anything behind in the function's module (ptera's own __ptera* helpers excepted)
    stray = sorted(str(k) for k in vars(RW) if k not in BASE and not str(k).startswith(("__ptera", "_ptera__")))
    for k in list(vars(RW)):
        if k not in BASE and not str(k).startswith(("__ptera", "_ptera__")):
            del vars(RW)[k]
    return {"id": c["id"], "place": c["place"], "ref": ref, "ref_err": ref_err, "off": off, "steps": steps, "stray": stray}


def main():
    cases = json.load(open(sys.argv[1]))
    out = [run_case(c) for c in cases]
    json.dump(out, open(sys.argv[2], "w"))
    print(len(out))


if __name__ == "__main__":
    main()
