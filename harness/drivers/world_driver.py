"""Run scripted-world cases against the real ptera and record one trace per case.

usage: python -m harness.drivers.world_driver CASES.json OUT.json
CASES.json: {"mode": "overlay"|"probe"|"api", "cases": [{"id", "script", "arg", "handlers": [...]}]}
handler: {"kind": "imm"|"tot", "sel": <node>, "ovr": {"k": ...}, "raw": bool, "ptype": ""|"total"|"immediate"}
"""
import ast
import json
import symtable
import sys
import inspect

from harness.worlds import rt, world
from harness import sel as S

from ptera import tools as ptools
from ptera.interpret import Immediate, Total
from ptera.overlay import BaseOverlay, Overlay, tooled
from ptera.probe import probing
from ptera.selector import select
from ptera.utils import ABSENT

FNS = {"f": world.f, "g": world.g, "h": world.h, "s": world.s}
ENV = dict(vars(world))
ENV.update(lt=ptools.lt, gt=ptools.gt, lte=ptools.lte, gte=ptools.gte, every=ptools.every, between=ptools.between)


def world_facts():
    """Environment facts about the world functions, derived from their source without ptera."""
    src = inspect.getsource(world)
    table = symtable.symtable(src, "world.py", "exec")
    tree = ast.parse(src)
    facts = {}
    allext = set()
    for fdef in tree.body:
        if not isinstance(fdef, ast.FunctionDef):
            continue
        st = next(c for c in table.get_children() if c.get_name() == fdef.name)
        ext = sorted(s.get_name() for s in st.get_symbols() if s.is_global() and s.is_referenced())
        params = []
        for a in fdef.args.args:
            cats = []
            if isinstance(a.annotation, ast.Constant) and isinstance(a.annotation.value, str):
                cats = [t.strip()[1:] for t in a.annotation.value.split("&") if t.strip().startswith("@")]
            params.append({"name": a.arg, "cats": cats})
        ann = {}
        for nd in ast.walk(fdef):
            if isinstance(nd, ast.AnnAssign) and isinstance(nd.target, ast.Name):
                v = nd.annotation
                if isinstance(v, ast.Constant) and isinstance(v.value, str):
                    ann[nd.target.id] = [t.strip()[1:] for t in v.value.split("&") if t.strip().startswith("@")]
        local = sorted(s.get_name() for s in st.get_symbols() if s.is_local() and not s.is_parameter())
        facts[fdef.name] = {"ext": ext, "params": params, "ann": ann, "locals": local}
        allext |= set(ext)
    return facts, sorted(allext)


FACTS, ALLEXT = world_facts()
rt.EXT_NAMES[:] = ALLEXT


def _num(v):
    return isinstance(v, (int, float)) and not isinstance(v, bool)


def ovr_fn(ovr, focus_key):
    """Override function of the captured context described by ovr; returns value or ABSENT (decline)."""
    k = ovr["k"]

    def fn(rec):
        if k == "const":
            return ovr["c"]
        if k == "addkey":
            if ovr["key"] in rec and _num(rec[ovr["key"]]):
                return rec[ovr["key"]] + ovr["n"]
            return ABSENT
        if k == "iflt":
            return ovr["c"] if _num(rec[focus_key]) and rec[focus_key] < ovr["n"] else ABSENT
        if k == "samefloat":
            v = rec[focus_key]
            if isinstance(v, (int, float)) and not isinstance(v, bool) and 0 <= v < 100000:
                return float(v)
            return ABSENT
        raise ValueError(k)

    return fn


def focus_key(node):
    for c in node["caps"]:
        if c["tag"] == 1:
            return c["key"]
    for kid in node["kids"]:
        r = focus_key(kid)
        if r:
            return r
    return None


class Late:
    """an event made of Capture objects, kept as delivered and read when the run is over (what was delivered must not change)"""

    def __init__(self, data, **kw):
        self.data, self.kw = data, kw

    def read(self):
        return rec_of_now(self.data, **self.kw)


def rec_of(data, raw=False, total=False):
    return Late(data, raw=raw, total=total)


def rec_of_now(data, raw=False, total=False):
    """data: {key: Capture} -> sorted [[key, val]] (imm) / [[key, [vals]]] (tot) / with names when raw."""
    out = []
    for k, c in data.items():
        if total:
            out.append([k, [rt.enc(v) for v in c.values]])
        elif raw:
            out.append([k, rt.enc(c.value), c.name])
        else:
            out.append([k, rt.enc(c.value)])
    return sorted(out)


def plain_rec(data):
    out = []
    for k, v in data.items():
        if k == "$wrap":
            out.append([k, 1 if v["step"] == "begin" else 2])
        else:
            out.append([k, rt.enc(v)])
    return sorted(out)


def run_overlay(case):
    handlers = []
    for i, h in enumerate(case["handlers"]):
        s = select(S.sel_str(h["sel"]), env=ENV)
        hid = i + 1
        if h["kind"] == "tot":
            def close(data, hid=hid):
                rt.LOG.append(("dlv", hid, rec_of(data, total=True)))
            handlers.append(Total(s, close=close))
        elif h["ovr"]["k"] != "none":
            fk = focus_key(h["sel"])
            fn = ovr_fn(h["ovr"], fk)

            def icpt(data, hid=hid, fn=fn):
                rec = {k: c.value for k, c in data.items()}
                rt.LOG.append(("dlv", hid, plain_rec(rec)))
                return fn(rec)
            handlers.append(Immediate(s, intercept=icpt))
        else:
            def trig(data, hid=hid, raw=h.get("raw", False)):
                rt.LOG.append(("dlv", hid, rec_of(data, raw=raw)))
            handlers.append(Immediate(s, trigger=trig))
    return [BaseOverlay(*handlers)]


def run_probe(case):
    cms = []
    for i, h in enumerate(case["handlers"]):
        hid = i + 1
        text = S.sel_str(h["sel"])
        if h["kind"] == "tot":
            p = probing(text, env=ENV, raw=True, probe_type=h.get("ptype") or None)

            def sub(data, hid=hid):
                rt.LOG.append(("dlv", hid, rec_of(data, total=True)))
            p.subscribe(sub)
        elif h["ovr"]["k"] != "none":
            p = probing(text, env=ENV, overridable=True)
            fk = focus_key(h["sel"])
            fn = ovr_fn(h["ovr"], fk)

            if h["ovr"]["k"] == "iflt" and h["ovr"].get("pipe"):
                # the condition sits in the pipeline: a declined binding emits nothing downstream
                def log(data, hid=hid):
                    rt.LOG.append(("dlv", hid, plain_rec(data)))
                p.subscribe(log)
                p.filter(lambda data, fk=fk, n=h["ovr"]["n"]: _num(data[fk]) and data[fk] < n).override(h["ovr"]["c"])
            else:
                def setter(data, hid=hid, fn=fn):
                    rt.LOG.append(("dlv", hid, plain_rec(data)))
                    return fn(data)
                p.override(setter)
        elif h.get("raw"):
            p = probing(text, env=ENV, raw=True)

            def sub(data, hid=hid):
                rt.LOG.append(("dlv", hid, rec_of(data, raw=True)))
            p.subscribe(sub)
        else:
            p = probing(text, env=ENV)

            def sub(data, hid=hid):
                rt.LOG.append(("dlv", hid, plain_rec(data)))
            p.subscribe(sub)
        cms.append(p)
    return cms


def run_api(case):
    """Overlay helper API: tweaking / rewriting / tap / on."""
    if case.get("reenter"):
        # with house: with experiment: with house.fork(): ...  - the override that was activated again last wins
        hA, hB = case["handlers"][0], case["handlers"][1]
        house = Overlay().tweak({select(S.sel_str(hA["sel"]), env=ENV): hA["ovr"]["c"]})
        exp = Overlay().tweak({select(S.sel_str(hB["sel"]), env=ENV): hB["ovr"]["c"]})
        return [house, exp, house.fork()]
    ol = Overlay()
    if case.get("forkpre"):
        # the instance has a history: blocks forked from it (tweaking / rewriting / tapping) that are over; nothing of them stays
        pre = {select(t, env=ENV): 31337 for t in ("f > a", "f > b", "g > a", "h > b", "f > c", "f > #value")}
        with ol.tweaking(pre):
            pass
        with ol.rewriting({k: (lambda d: 31338) for k in pre}):
            pass
        with ol.tapping(select("f > a", env=ENV)):
            pass
    tweaks = {}
    for i, h in enumerate(case["handlers"]):
        hid = i + 1
        text = S.sel_str(h["sel"])
        s = select(text, env=ENV)
        if h["kind"] == "tot":
            def cb(data, hid=hid):
                rt.LOG.append(("dlv", hid, sorted([k, [rt.enc(x) for x in v]] for k, v in data.items())))
            ol.register(s, cb, all=True, immediate=False)
        elif h["ovr"]["k"] == "const":
            # tweak gives no way to observe intercept calls; the A-level only checks the stored value
            tweaks[s] = h["ovr"]["c"]          # all constant overrides go into ONE tweak dict (see below)
        elif h["ovr"]["k"] != "none":
            fk = focus_key(h["sel"])
            fn = ovr_fn(h["ovr"], fk)

            def rw(data, hid=hid, fn=fn):
                rt.LOG.append(("dlv", hid, plain_rec(data)))
                return fn(data)
            ol.rewrite({s: rw})
        else:
            def cb(data, hid=hid):
                rt.LOG.append(("dlv", hid, plain_rec(data)))
            ol.register(s, cb)
    if tweaks:
        # activation order = handler order: the tweak handlers are added last, so they are the most recent ones
        ol.tweak(tweaks)
    return [ol]


def to_events(log):
    events = []
    for rec in log:
        if rec[0] == "env":
            name, arg = rec[1], rec[2]
            if name.startswith("call_") or name.startswith("catch_"):
                e = {"ev": "call", "fn": name[-1], "catch": name.startswith("catch_"), "val": arg}
            elif name.startswith("bind_"):
                e = {"ev": "bind", "var": name[-1], "val": arg}
            elif name.startswith("read_"):
                e = {"ev": "read", "var": name[-1], "val": arg}
            elif name == "aug_a":
                e = {"ev": "aug", "var": "a", "val": arg}
            elif name == "ann_c":
                e = {"ev": "ann", "var": "c", "val": arg}
            elif name == "raiseb":
                e = {"ev": "raise", "val": arg}
            elif name == "decl":
                # a declared-only variable nobody supplies: the call fails there with ptera's name error (code 999999)
                e = {"ev": "raise", "val": 799999}
            elif name.startswith("sloop_"):
                e = {"ev": "sloop", "var": name[-1], "val": 0}
            else:
                e = {"ev": name, "val": arg}
            e["dlv"] = []
            events.append(e)
        else:
            events[-1]["dlv"].append({"h": rec[1], "rec": rec[2].read() if isinstance(rec[2], Late) else rec[2]})
    return events


def has_tag2(node):
    return any(c["tag"] == 2 for c in node["caps"]) or any(has_tag2(k) for k in node["kids"])


def run_case(case, mode):
    rt.reset(case["script"])
    for h in case["handlers"]:
        h["wrap"] = (mode == "probe" and h["kind"] == "imm" and has_tag2(h["sel"]))
    if case.get("pre"):
        # a history is only a history on functions nobody has probed before: fresh function objects for this case
        import importlib
        importlib.reload(world)
        ENV.update({k: v for k, v in vars(world).items() if not k.startswith("__")})
    for text in case.get("pre", []):
        # an earlier probe lifetime on the same functions (already over when the case starts)
        try:
            with probing(text, env=ENV):
                pass
        except Exception:
            pass
    cms = {"overlay": run_overlay, "probe": run_probe, "api": run_api}[mode](case)
    rt.LOG.append(("env", "catch_f", case.get("arg", 0)))
    outcome = "ok"
    try:
        import contextlib
        with contextlib.ExitStack() as st:
            for cm in cms:
                st.enter_context(cm)
            try:
                rt.res(world.f(rt.dec(case.get("arg", 0))))
            except (rt.ScriptBase, NameError):
                rt.caught()
    except rt.BadScript as ex:
        # the instrumented world consumed the script differently from what the script describes (e.g. an exception
        # was swallowed or raised where none should be): part of the observable outcome
        outcome = "ScriptDesync"
        rt.LOG.append(("env", "error", 0))
    except Exception as ex:  # an error escaping from ptera machinery: part of the observable outcome
        outcome = type(ex).__name__
        rt.LOG.append(("env", "error", 0))
    events = to_events(rt.LOG)
    if rt.POS[0] != len(rt.SCRIPT) and outcome == "ok":
        outcome = "script-not-consumed"
    return {"id": case["id"], "mode": mode, "facts": FACTS, "ext": ALLEXT, "handlers": case["handlers"],
            "events": events, "outcome": outcome}


def main():
    spec = json.load(open(sys.argv[1]))
    mode = spec["mode"]
    if mode in ("overlay", "api"):
        for fn in FNS.values():
            tooled.inplace(fn)
    out = [run_case(c, mode) for c in spec["cases"]]
    json.dump(out, open(sys.argv[2], "w"))
    print(json.dumps({"traces": len(out), "events": sum(len(t["events"]) for t in out),
                      "deliveries": sum(len(e["dlv"]) for t in out for e in t["events"])}))


if __name__ == "__main__":
    main()
