"""C13: method selectors on receiver populations.
usage: python -m harness.drivers.recv_driver CASES.json OUT.json
case: {"id", "target": obj-or-class name, "calls": [obj names], "method": "meth"|"other"|"deco"|"prop", "path": "direct"|"dotted"}
"""
import json
import sys

from harness.worlds import recvworld as RW
from ptera.probe import probing


def population():
    pop = {"k1": RW.K(1), "k2": RW.K(2), "s1": RW.Sub(3), "e1": RW.E(7), "e2": RW.E(7), "e3": RW.E(8), "u1": RW.U(9), "u2": RW.U(9)}
    # a small tree for the recursive method: k1 -> k2 -> s1, e1 -> e3   (Recv.tla Kids)
    pop["k1"].kids = [pop["k2"]]
    pop["k2"].kids = [pop["s1"]]
    pop["e1"].kids = [pop["e3"]]
    # receivers that carry an attribute called `obj` (handles, wrappers, linked nodes): k1 -> k2, s1 -> k1, u1 -> itself
    pop["k1"].obj = pop["k2"]
    pop["s1"].obj = pop["k1"]
    pop["u1"].obj = pop["u1"]
    return pop


CLASSES = {"K": RW.K, "Sub": RW.Sub, "E": RW.E, "U": RW.U}
RESULT = {"meth": 1, "other": 2, "deco": 3, "deco2": 7, "tree": 5, "glob": 6, "store": 9, "__call__": 11}
PROPS = {"prop": 4, "prop2": 8}


def run_case(c):
    pop = population()
    env = dict(pop)
    env.update(CLASSES)
    env["holder"] = RW.Holder(pop.get(c["target"])) if c["target"] in pop else None
    env["meth"] = RW.meth
    env["poll"] = RW.poll
    nested = c["path"] in ("nested", "nested_ctx") and c["method"] not in PROPS
    via = c.get("via") or [True] * len(c["calls"])
    m = c["method"]
    recvname = "this" if m == "other" else "self"
    if c["path"] == "selfcap" and c["target"] in pop and m not in PROPS:
        text = f"{c['target']}.{m}({recvname}) > v"              # the receiver parameter named explicitly
    elif c["path"] == "selfalias" and c["target"] in pop and m not in PROPS:
        text = f"{c['target']}.{m}({recvname} as who, x) > v"
    elif c["path"] == "selffocus" and c["target"] in pop and m not in PROPS:
        text = f"{c['target']}.{m} > {recvname} as who"          # the receiver parameter itself is the focus
    elif c["path"] == "callonly" and m not in PROPS:
        text = f"{c['target']}.{m}()"                            # nothing captured: one (empty) record per call
    elif c["path"] == "enter" and m not in PROPS:
        text = f"{c['target']}.{m} > #enter"                     # the entry event of the method, for one receiver
    elif c["path"] == "external":
        text = f"{c['target']}.glob > BASE"                      # a global the method reads, for one receiver
        m = "glob"
    elif c["path"] == "nested2" and c["target"] in pop and c.get("target2") in pop:
        text = f"{c['target']}.tree > {c['target2']}.tree > v"   # two object-bound levels
        m = "tree"
    elif c["path"] == "nested" and m not in PROPS:
        text = f"poll > {c['target']}.{m} > v"                   # the method is an inner step of a call path
    elif c["path"] == "nested_ctx" and m not in PROPS:
        text = f"poll(tick) > {c['target']}.{m}(x) > v"
    elif c["path"] == "dotted" and c["target"] in pop:
        text = f"holder.obj.{m} > v"
    else:
        text = f"{c['target']}.{m} > v"
    events = []
    outcome = "ok"
    rets = []
    plain = 0
    try:
        if c.get("scope") == "local":
            # no env=: the names are resolved in the scope the probe is written in - here a function whose locals are the
            # population, in a module whose globals bind the same names to OTHER objects of the same classes (locals win)
            decoy = population()
            glb = {"__name__": "harness_recv_scope", "probing": probing, **CLASSES, "meth": RW.meth, "poll": RW.poll, **decoy,
                   "holder": RW.Holder(decoy.get(c["target"]))}
            names = sorted(env)
            exec(f"def _scope({', '.join(names)}):\n    return probing({text!r})\n", glb)
            probe = glb["_scope"](**env)
        else:
            probe = probing(text, env=env)
        with probe as p:
            p.subscribe(lambda d: events.append(dict(d)))
            for i, name in enumerate(c["calls"]):
                n0 = len(events)
                o = pop[name]
                if m in PROPS:
                    r = getattr(o, m)
                    rets.append(r == o.key + PROPS[m])
                elif nested and via[i]:
                    r = RW.poll(o, 10 + i, m)
                    rets.append(r == 10 + i + RESULT[m])
                elif m == "__call__":
                    r = o(10 + i)                                # the implicit special-method call
                    rets.append(r == 10 + i + RESULT[m])
                else:
                    r = getattr(o, m)(10 + i)
                    rets.append(r == 10 + i + RESULT[m])
                for e in events[n0:]:
                    e["_call"] = i
            RW.meth(5)          # the plain function of the same name must not be observed
            plain = len([e for e in events if "_call" not in e])
    except Exception as ex:
        outcome = type(ex).__name__
    byid = {id(o): n for n, o in pop.items()}
    evs = []
    for e in events:
        if "_call" not in e:
            continue
        selfname = ""
        for k, v in e.items():
            if k not in ("v", "_call") and id(v) in byid:
                selfname = byid[id(v)]
        evs.append({"call": e["_call"] + 1, "v": e.get("v", -1), "self": selfname})
    return dict(c, text=text, outcome=outcome, events=evs, rets_ok=all(rets), plain_observed=plain, via=via, nested=nested)


def main():
    cases = json.load(open(sys.argv[1]))
    out = [run_case(c) for c in cases]
    json.dump(out, open(sys.argv[2], "w"))
    print(len(out))


if __name__ == "__main__":
    main()
