"""Real activations for Envelope.tla (C06): generated functions / generators, one probe per instrumented name, a scripted driver.

usage: python -m harness.drivers.env_driver <cases.json> <out.json> <workdir>
case: {"id", "cfg": {kind, script, drive, I, ext, free, params}, "how": {"close": "close"|"drop", "star": "each"|"generic"}}
result: the case plus "out" (interactions delivered, in order: [name, value]) and "obs" (what the driver saw), or "act_err".
Nothing is judged here.
"""
import contextlib
import gc
import importlib.util
import json
import os
import sys

METAS = ["#enter", "#exit", "#value", "#error", "#yield", "#receive"]


def source(cfg, fname):
    ps = ", ".join(cfg["params"])
    lines = [f"def make_{fname}():"]
    if cfg["free"]:
        lines += [f"    {v} = '{v}v'" for v in cfg["free"]]
    lines.append(f"    def {fname}({ps}):")
    reads = cfg["ext"] + cfg["free"]
    body = []
    if reads:
        body.append("(" + ", ".join(reads) + ",)")
    nyield = 0
    for i, op in enumerate(cfg["script"], 1):
        if op == "bind":
            body.append(f"a = 'a{i}'")
        elif op == "yield":
            body.append(f"yield 'y{i}'")
            nyield += 1
        elif op == "ret":
            body.append(f"return 'r{i}'")
        elif op == "raise":
            body.append(f"raise E('E{i}')")
        elif op == "retfin":
            body += ["try:", f"    return 'r{i}'", "finally:", f"    return 'f{i}'"]
    if cfg["kind"] == "gen" and nyield == 0:
        body[0:0] = ["if 0:", "    yield 'never'"]
    if not body:
        body.append("pass")
    lines += ["        " + b for b in body]
    lines.append(f"    return {fname}")
    return "\n".join(lines) + "\n"


def key(cfg):
    return json.dumps([cfg["kind"], cfg["script"], cfg["ext"], cfg["free"], cfg["params"]])


def enc(v):
    if v is None:
        return "None"
    if v is True:
        return "True"
    if isinstance(v, GeneratorExit):
        return "GeneratorExit"
    if isinstance(v, type):
        return v.__name__ + "v"
    if isinstance(v, BaseException):
        return str(v.args[0]) if v.args else type(v).__name__
    return str(v)


def present(cfg):
    names = ["#enter", "#exit", "#value", "#error"] + cfg["ext"] + cfg["free"] + cfg["params"]
    if cfg["kind"] == "gen":
        names += ["#yield", "#receive"]
    if "bind" in cfg["script"]:
        names.append("a")
    return names


def run_case(mod, case, fname):
    from ptera import probing
    cfg = case["cfg"]
    how = case.get("how", {})
    fn = getattr(mod, "make_" + fname)()
    out, obs = [], []
    names = present(cfg)
    wanted = names if "*" in cfg["I"] else [n for n in names if n in cfg["I"]]
    env = {fname: fn}
    args = [p + "v" for p in cfg["params"]]
    with contextlib.ExitStack() as st:
        try:
            if "*" in cfg["I"] and how.get("star") == "generic":
                p = probing(f"{fname} > $x", env=env, raw=True)
                p.subscribe(lambda d: out.append([d["x"].name, enc(d["x"].value)]))
                st.enter_context(p)
            else:
                for n in wanted:
                    p = probing(f"{fname} > {n}", env=env)
                    p.subscribe(lambda d, n=n: out.append([n, enc(d[n])]))
                    st.enter_context(p)
        except BaseException as ex:
            return dict(case, act_err=type(ex).__name__ + ": " + str(ex)[:200], out=[], obs=[])
        if cfg["kind"] == "fn":
            try:
                obs.append(["returned", enc(fn(*args))])
            except mod.E as ex:
                obs.append(["raised", enc(ex)])
        else:
            it = fn(*args)
            finished = False
            for d, act in enumerate(cfg["drive"], 1):
                try:
                    if act == "next":
                        obs.append(["yielded", enc(next(it))])
                    elif act == "send":
                        obs.append(["yielded", enc(it.send(None if d == 1 else f"s{d}"))])
                    elif act == "throw":
                        obs.append(["yielded", enc(it.throw(mod.T(f"T{d}")))])
                    else:
                        if how.get("close") == "drop":
                            del it
                            gc.collect()
                        else:
                            it.close()
                        obs.append(["closed", ""])
                        finished = True
                        break
                except StopIteration as si:
                    obs.append(["returned", enc(si.value)])
                    finished = True
                    break
                except (mod.E, mod.T) as ex:
                    obs.append(["raised", enc(ex)])
                    finished = True
                    break
            if not finished:
                del it
                gc.collect()
                obs.append(["closed", ""])
    return dict(case, out=out, obs=obs)


PAIR_SRC = """

def pairfn(tag):
    yield tag + '1'
    yield tag + '2'
"""


def run_pair(mod, case):
    """several generator activations of pairfn alive at once under the wrapper probe pairfn(!#enter, !!#exit); every event is
    attributed to the instance the driver is acting on at that moment"""
    from ptera import probing
    events, now = [], [""]
    its, started, finished = {}, set(), set()
    p = probing("pairfn(!#enter, !!#exit)", env={"pairfn": mod.pairfn}, raw=True)
    p.subscribe(lambda d: events.append([now[0], d["$wrap"]["step"], d["$wrap"]["id"]]))
    with p:
        for i, act in case["hist"]:
            now[0] = i
            if i not in its:
                its[i] = mod.pairfn(i)
            try:
                if act == "next":
                    started.add(i)
                    next(its[i])
                elif act == "close":
                    its[i].close()
                    finished.add(i)
                else:
                    its[i] = None
                    gc.collect()
                    finished.add(i)
            except StopIteration:
                finished.add(i)
        still = sorted(started - finished)
        n = len(events)
        # the instances that are still suspended are dropped one by one at the end (their end events are not part of the case)
        for i in still:
            now[0] = i
            its[i] = None
            gc.collect()
    ids = {}
    ev = [[e[0], e[1], ids.setdefault(e[2], len(ids) + 1)] for e in events[:n]]       # identities renumbered in order of appearance
    return dict(case, events=ev, still=still, started=len(started))


def main():
    cases = json.load(open(sys.argv[1]))
    work = sys.argv[3]
    keys = {}
    src = ["G = 'Gv'\nH = 'Hv'\n\n\nclass E(Exception):\n    pass\n\n\nclass T(Exception):\n    pass\n\n", PAIR_SRC]
    for c in cases:
        if "hist" in c:
            continue
        k = key(c["cfg"])
        if k not in keys:
            keys[k] = f"f{len(keys)}"
            src.append("\n" + source(c["cfg"], keys[k]))
    path = os.path.join(work, f"envworld_{os.getpid()}.py")
    with open(path, "w") as fh:
        fh.write("".join(src))
    spec = importlib.util.spec_from_file_location(f"envworld_{os.getpid()}", path)
    mod = importlib.util.module_from_spec(spec)
    sys.modules[spec.name] = mod
    spec.loader.exec_module(mod)
    res = [run_pair(mod, c) if "hist" in c else run_case(mod, c, keys[key(c["cfg"])]) for c in cases]
    json.dump(res, open(sys.argv[2], "w"))


if __name__ == "__main__":
    main()
