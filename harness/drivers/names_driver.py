"""C10: for every function of namesworld and every identifier (symtable names, fresh names, meta-variables),
try to activate probing('<fn> > <ident>') and record outcome, recorded provenance and the state afterwards.

usage: python -m harness.drivers.names_driver OUT.json
"""
import builtins
import inspect
import json
import symtable
import sys

from harness.worlds import namesworld as NW
from ptera.probe import probing

SRC = inspect.getsource(NW)
TOP = symtable.symtable(SRC, "namesworld.py", "exec")


def find_table(table, path):
    for name in path:
        table = next(c for c in table.get_children() if c.get_name() == name)
    return table


FUNCS = {
    "plain": (NW.plain, ["plain"]), "blocks": (NW.blocks, ["blocks"]), "scopes": (NW.scopes, ["scopes"]),
    "recur": (NW.recur, ["recur"]), "closure_fn": (NW.closure_fn, ["make_closure", "closure_fn"]),
    "only_except": (NW.only_except, ["only_except"]), "declared": (NW.declared, ["declared"]),
    "method": (NW.Holder.method, ["Holder", "method"]), "static": (NW.Holder.static, ["Holder", "static"]),
    "genfn": (NW.genfn, ["genfn"]),
    "reassigned": (NW.reassigned, ["reassigned"]), "counter": (NW.counter, ["make_counter", "counter"]), "matcher": (NW.matcher, ["matcher"]),
    "total": (NW.total, ["total"]), "report": (NW.report, ["report"]), "annotated": (NW.annotated, ["annotated"]),
    "nested_comp": (NW.nested_comp, ["nested_comp"]), "scale": (NW.scale, ["make_scaled", "scale"]),
}


def annotation_only_missing(fn):
    """names that occur only in annotations of the function's local variables and exist neither in its module nor among the
    builtins: symtable lists them as globals the function refers to, but Python never evaluates the annotation of a local -
    the function does not read them"""
    import ast
    import textwrap
    tree = ast.parse(textwrap.dedent(inspect.getsource(fn))).body[0]
    in_ann, elsewhere = set(), set()

    def walk(node, ann):
        for ch in ast.iter_child_nodes(node):
            if isinstance(ch, (ast.FunctionDef, ast.AsyncFunctionDef, ast.Lambda, ast.ClassDef)):
                continue
            if isinstance(node, ast.AnnAssign) and ch is node.annotation:
                walk_names(ch, True)
            else:
                if isinstance(ch, ast.Name):
                    (in_ann if ann else elsewhere).add(ch.id)
                walk(ch, ann)

    def walk_names(node, ann):
        if isinstance(node, ast.Name):
            in_ann.add(node.id)
        walk(node, True)
    walk(tree, False)
    return {n for n in in_ann - elsewhere if n not in fn.__globals__ and not hasattr(builtins, n)}


def comprehension_only(fn):
    """names whose only binding sites are comprehension targets: a comprehension is a scope of its own (since Python 3.12
    symtable lists them among the locals of the enclosing function because comprehensions are inlined - an
    implementation detail, the names are still invisible outside the comprehension)"""
    import ast
    import textwrap
    tree = ast.parse(textwrap.dedent(inspect.getsource(fn))).body[0]
    comp, other = set(), set()
    comps = (ast.ListComp, ast.SetComp, ast.DictComp, ast.GeneratorExp)

    def walk(node, inside):
        for ch in ast.iter_child_nodes(node):
            if isinstance(ch, ast.comprehension):
                for n in ast.walk(ch.target):
                    if isinstance(n, ast.Name):
                        comp.add(n.id)
                walk(ch.iter, inside)
                for c in ch.ifs:
                    walk(c, True)
                continue
            if isinstance(ch, ast.Name) and isinstance(ch.ctx, ast.Store) and not inside:
                other.add(ch.id)
            if isinstance(ch, ast.arg) and not inside:
                other.add(ch.arg)
            walk(ch, inside or isinstance(ch, comps))
    walk(tree, False)
    return comp - other


def plainly_assigned(fn):
    """names bound by an assignment / loop / with / import in the function's own body (not only by def or class)"""
    import ast
    import textwrap
    tree = ast.parse(textwrap.dedent(inspect.getsource(fn))).body[0]
    names = set()

    def walk(node, top):
        for ch in ast.iter_child_nodes(node):
            if isinstance(ch, (ast.FunctionDef, ast.AsyncFunctionDef, ast.ClassDef, ast.Lambda, ast.ListComp, ast.SetComp,
                               ast.DictComp, ast.GeneratorExp)):
                continue
            if isinstance(ch, ast.Name) and isinstance(ch.ctx, ast.Store):
                names.add(ch.id)
            walk(ch, False)
    walk(tree, True)
    return names
METAS_OK = ["#enter", "#exit", "#value", "#error", "#yield", "#receive"]
METAS_BAD = ["#nope", "#values", "#return"]
FRESH = ["zz_nowhere", "qq_fresh"]


def facts(st):
    out = {}
    for s in st.get_symbols():
        n = s.get_name()
        if s.is_parameter():
            out[n] = "param"
        elif s.is_free():
            out[n] = "free"
        elif s.is_local():
            out[n] = "local"
        elif s.is_global():
            if s.is_referenced() and not s.is_assigned():
                out[n] = "global"
            else:
                out[n] = "global-assigned"
    return out


def try_activate(fn, env, text, strict_first=False, scope=False):
    orig = fn.__code__ if hasattr(fn, "__code__") else None
    outcome, prov = "ok", ""
    if strict_first:
        # history: the same selector is first checked strictly while the function is not instrumented (always refused)
        from ptera.selector import select
        try:
            select(text, env=env, strict=True)
        except Exception:
            pass
    try:
        if scope:
            # no env=: the names are locals of the function the probe is written in
            glb = {"__name__": "harness_names_scope", "probing": probing}
            exec(f"def _scope({', '.join(sorted(env))}):\n    return probing({text!r})\n", glb)
            p = glb["_scope"](**env)
        else:
            p = probing(text, env=env)
        with p:
            info = getattr(fn, "__ptera_info__", None) or {}
            name = text.split(">")[1].strip()
            if name in info:
                prov = info[name]["provenance"] or ""
    except BaseException as ex:
        outcome = type(ex).__name__
    clean = (orig is None) or (fn.__code__ is orig)
    st = getattr(fn, "__ptera_stack__", None)
    if st is not None and getattr(st, "instrument_count", 0) != 0:
        clean = False
    return outcome, prov, clean


def main():
    cases = []
    for fname, (fn, path) in FUNCS.items():
        st = find_table(TOP, path)
        fx = facts(st)
        # names of nested scopes are not names of the function itself
        nested = set()
        for ch in st.get_children():
            for s in ch.get_symbols():
                if s.get_name() not in fx:
                    nested.add(s.get_name())
        env = {fname: fn}
        plain_names = plainly_assigned(fn)
        for n in annotation_only_missing(fn):
            if fx.get(n) == "global":
                fx[n] = "absent"
        for n in comprehension_only(fn):
            if fx.get(n) == "local":
                del fx[n]
                nested.add(n)
        idents = [(n, k) for n, k in fx.items()] + [(n, "absent") for n in FRESH] + [(n, "absent") for n in sorted(nested)] \
            + [(n, "meta-ok") for n in METAS_OK] + [(n, "meta-bad") for n in METAS_BAD]
        for ident, kind in idents:
            if ident.startswith("."):
                continue
            sub = ""
            sym = fx.get(ident)
            if kind == "local":
                s = st.lookup(ident)
                sub = "def-or-class" if s.is_namespace() and ident not in plain_names else ("imported" if s.is_imported() else "")
            if not ident.isascii():
                sub = "non-ascii"
            if kind == "global" and ident == fname:
                sub = "own-name"
            if kind == "global" and hasattr(builtins, ident):
                sub = "builtin"
            outcome, prov, clean = try_activate(fn, env, f"{fname} > {ident}", strict_first=(len(cases) % 3 == 0))
            cases.append({"id": len(cases), "fn": fname, "ident": ident, "kind": kind, "sub": sub, "outcome": outcome,
                          "prov": prov, "clean": clean})
    # objects that are not instrumentable Python functions, and unresolvable names
    _ns = {}
    exec("def made_by_exec(x):\n    y = x + 1\n    return y\n", _ns)        # a Python function whose source cannot be found
    others = {"made_by_exec": _ns["made_by_exec"], "builtin_len": len, "a_class": NW.Holder, "an_int": 3, "a_module": NW.math, "a_lambda": NW.lam, "a_coroutine_fn": NW.coro}
    for name, obj in others.items():
        outcome, prov, clean = try_activate(obj, {name: obj}, f"{name} > x")
        cases.append({"id": len(cases), "fn": name, "ident": "x", "kind": "nonfunc", "sub": name, "outcome": outcome, "prov": "", "clean": clean})
    # the same, named in the scope the probe is written in (no env=); falsy objects are objects like any other
    others.update({"a_zero": 0, "an_empty_str": "", "an_empty_list": [], "a_none": None})
    for name, obj in others.items():
        outcome, prov, clean = try_activate(obj, {name: obj}, f"{name} > x", scope=True)
        cases.append({"id": len(cases), "fn": name, "ident": "x", "kind": "nonfunc", "sub": "scope:" + name, "outcome": outcome, "prov": "", "clean": clean})
    outcome, prov, clean = try_activate(NW.plain, {"plain": NW.plain}, "no_such_function > x")
    cases.append({"id": len(cases), "fn": "no_such_function", "ident": "x", "kind": "nofunc", "sub": "", "outcome": outcome, "prov": "", "clean": clean})
    json.dump(cases, open(sys.argv[1], "w"))
    print(len(cases))


if __name__ == "__main__":
    main()
