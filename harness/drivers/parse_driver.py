"""Selector compilation cases through the real ptera parser.

usage: python -m harness.drivers.parse_driver TIER SEED OUT.json
cases: kind "parse" (text, toks, out), "law" (two spellings), "ws" (re-spaced spelling), "select" (select/probing outcome)
"""
import itertools
import json
import random
import sys

from ptera.selector import Call, Element, MatchFunction, VCall, VKeyword, VSymbol, parse, parser, select, SelectorError
from ptera.utils import ABSENT

NONE = {"k": "none"}


def cv(v):
    if v is None:
        return NONE
    if v is ABSENT:
        return {"k": "absent"}
    if isinstance(v, VSymbol):
        return {"k": "VS", "v": v.value}
    if isinstance(v, VCall):
        return {"k": "VC", "fn": cv(v.fn), "args": [cv(a) for a in v.args]}
    if isinstance(v, VKeyword):
        return {"k": "VK", "key": cv(v.key), "val": cv(v.value)}
    if v is MatchFunction:
        return {"k": "MF"}
    if isinstance(v, list):
        return {"k": "VL", "items": [cv(a) for a in v]}
    if isinstance(v, str):
        return {"k": "str", "v": v}
    raise TypeError(repr(v))


def cs(s):
    if isinstance(s, Element):
        return {"k": "E", "name": cv(s.name), "cap": cv(s.capture), "t1": 1 in s.tags, "t2": 2 in s.tags,
                "cat": cv(s.category), "val": cv(s.value)}
    if isinstance(s, Call):
        return {"k": "C", "el": cs(s.element), "caps": [cs(c) for c in s.captures], "kids": [cs(c) for c in s.children],
                "imm": s.immediate}
    if isinstance(s, list):
        return {"k": "L", "items": [cs(x) for x in s]}
    raise TypeError(repr(s))


def outcome(text):
    try:
        r = parse(text)
        return cs(r), r
    except SyntaxError:
        return {"k": "X", "cls": "SyntaxError"}, None
    except BaseException as e:
        return {"k": "X", "cls": type(e).__name__}, None


def tokens(text):
    return [{"v": t.value, "ty": t.type or "NONE"} for t in parser.lexer(text)]


ALPHA = ["f", "x", "*", "#value", "@T", ">", "(", ")", "!", "!!", "$", ":", "=", "~", ",", " as ", " ", "[", "]", "'s'", "&", "!!!"]
NAMES = ["f", "g", "x", "y", "*", "#value", "#enter"]


def operand(rng, d):
    r = rng.random()
    if d <= 0 or r < 0.35:
        base = rng.choice(NAMES)
    elif r < 0.5:
        base = "$" + rng.choice(["x", "y", ""])
    elif r < 0.7:
        base = operand(rng, d - 1) + "(" + ", ".join(operand(rng, d - 1) for _ in range(rng.randint(0, 3))) + ")"
    elif r < 0.8:
        base = "(" + operand(rng, d - 1) + ")"
    else:
        base = operand(rng, d - 1) + " > " + operand(rng, d - 1)
    r = rng.random()
    if r < 0.15:
        base = "!" + base
    elif r < 0.2:
        base = "!!" + base
    r = rng.random()
    if r < 0.15:
        base += " as " + rng.choice(["r", "x", "*", "g(x)"])
    elif r < 0.25:
        base += ":" + rng.choice(["@T", "T", "t(1)", "*"])
    elif r < 0.35:
        base += "=" + rng.choice(["1", "'s'", "g(1)", "g(1, k=2)", "g(h(1)=2)", "x"])
    elif r < 0.42:
        base += "~" + rng.choice(["p(3)", "p", "p(1, n=2)"])
    return base


def mutate(rng, s):
    toks = list(s)
    for _ in range(rng.randint(1, 2)):
        if not toks:
            break
        i = rng.randrange(len(toks))
        r = rng.random()
        if r < 0.4:
            del toks[i]
        elif r < 0.7:
            toks.insert(i, rng.choice(list("(),>!$:=~ ") + [" as "]))
        else:
            toks[i] = rng.choice(list("(),>!$:=~x"))
    return "".join(toks)


# ---- C15: documented equivalences; slots FN (function position) and CAP (capture operands)
FNS = ["f", "g", "mod.fn"]
CAPS = ["x", "y", "x as z", "x:@T", "x=1", "x='s'", "x=g(1, k=2)", "x~p(3)", "$x", "$x:@T", "#value", "#enter", "x as z:@T"]
CTX = ["a", "g(y)", "b as c", "a=1", "a, g(y, z)", "a:@T", "$q", "g(y, z)", "a, b", "h(g(y))"]    # quick: the first five
LAWS = [
    ("gt-vs-bang", lambda fn, cap, ctx: (f"{fn} > {cap}", f"{fn}(!{cap})")),
    ("dollar-cat", lambda fn, cap, ctx: (f"{fn}({ctx}) > $x:@T", f"{fn}({ctx}) > * as x:@T")),
    ("dollar-val", lambda fn, cap, ctx: (f"{fn}($x=1) > {cap}", f"{fn}(* as x=1) > {cap}")),
    ("dollar-match", lambda fn, cap, ctx: (f"{fn}($x~p(3)) > {cap}", f"{fn}(* as x~p(3)) > {cap}")),
    ("dollar-cat-val", lambda fn, cap, ctx: (f"{fn}({ctx}, $x:@T=1) > y", f"{fn}({ctx}, * as x:@T=1) > y")),
    ("gt-with-context", lambda fn, cap, ctx: (f"{fn}({ctx}) > {cap}", f"{fn}({ctx}, !{cap})")),
    ("chain-assoc", lambda fn, cap, ctx: (f"{fn} > g > {cap}", f"{fn} > (g > {cap})")),
    ("chain-nested", lambda fn, cap, ctx: (f"{fn} > g > {cap}", f"{fn}(g(!{cap}))")),
    ("chain-ctx", lambda fn, cap, ctx: (f"{fn}({ctx}) > g > {cap}", f"{fn}({ctx}, g(!{cap}))")),
    ("call-as", lambda fn, cap, ctx: (f"{fn}() as r", f"{fn}(!#value as r)")),
    ("call-ctx-as", lambda fn, cap, ctx: (f"{fn}({ctx}) as r", f"{fn}({ctx}, !#value as r)")),
    ("dollar", lambda fn, cap, ctx: (f"{fn} > $x", f"{fn} > * as x")),
    ("dollar-in", lambda fn, cap, ctx: (f"{fn}($x) > y", f"{fn}(* as x) > y")),
    ("call-eq", lambda fn, cap, ctx: (f"{fn}({ctx})=1", f"{fn}({ctx}, #value=1)")),
    ("call-eq-val", lambda fn, cap, ctx: (f"{fn}({ctx})=g(1)", f"{fn}({ctx}, #value=g(1))")),
    # the same equivalences inside another call's parentheses (no root context)
    ("in-gt-vs-bang", lambda fn, cap, ctx: (f"h({ctx}, {fn} > {cap})", f"h({ctx}, {fn}(!{cap}))")),
    ("in-chain-nested", lambda fn, cap, ctx: (f"h({ctx}, {fn} > g > {cap})", f"h({ctx}, {fn}(g(!{cap})))")),
    ("in-call-as", lambda fn, cap, ctx: (f"h({ctx}, {fn}() as r)", f"h({ctx}, {fn}(#value as r))")),
    ("in-chain-call-as", lambda fn, cap, ctx: (f"h({ctx}, g > {fn}() as r)", f"h({ctx}, g({fn}() as r))")),
    ("in-chain-call-as2", lambda fn, cap, ctx: (f"h({ctx}, g > {fn}({cap}) as r)", f"h({ctx}, g({fn}({cap}, #value as r)))")),
    ("in-call-eq", lambda fn, cap, ctx: (f"h(q, {fn}({ctx})=1)", f"h(q, {fn}({ctx}, #value=1))")),
    # redundant grouping parentheses around an operand of an argument list change nothing (the operand is not at the root)
    ("group-operand", lambda fn, cap, ctx: (f"{fn}(({cap}), !w)", f"{fn}({cap}, !w)")),
    ("group-operand-cat", lambda fn, cap, ctx: (f"{fn}((x as v):@T, !w)", f"{fn}(x as v:@T, !w)")),
    ("group-call-as", lambda fn, cap, ctx: (f"{fn}({ctx}, (g() as s), h(!w))", f"{fn}({ctx}, g() as s, h(!w))")),
    # a variable that is context (or condition) and focus of the same call
    ("same-var-focus", lambda fn, cap, ctx: (f"{fn}({ctx}, x=1) > x", f"{fn}({ctx}, x=1, !x)")),
    ("same-var-twice", lambda fn, cap, ctx: (f"{fn}(x) > x", f"{fn}(x, !x)")),
    ("same-var-nested", lambda fn, cap, ctx: (f"g > {fn}(x~p(3)) > x", f"g({fn}(x~p(3), !x))")),
    # two notations composed on one call: the return value captured AND conditioned
    ("call-as-eq", lambda fn, cap, ctx: (f"{fn}({ctx}) as r = 1", f"{fn}({ctx}, !#value as r, #value=1)")),
    ("call-as-match", lambda fn, cap, ctx: (f"{fn}({ctx}) as r ~ p(3)", f"{fn}({ctx}, !#value as r, #value~p(3))")),
    ("call-eq-as", lambda fn, cap, ctx: (f"({fn}({ctx})=1) as r", f"{fn}({ctx}, #value=1, !#value as r)")),
    ("in-call-as-eq", lambda fn, cap, ctx: (f"h(q, {fn}({ctx}) as r = 1)", f"h(q, {fn}({ctx}, #value as r, #value=1))")),
    ("root-chain-call-as-eq", lambda fn, cap, ctx: (f"g > {fn}({ctx}) as r = 1", f"g({fn}({ctx}, !#value as r, #value=1))")),
    ("root-chain-call-as", lambda fn, cap, ctx: (f"g > {fn}({ctx}) as r", f"g({fn}({ctx}, !#value as r))")),
]


def respace(rng, text):
    """re-space / line-break a selector: lexemes of the real lexer rejoined with random white space"""
    toks = parser.lexer(text)
    lex = []
    # every character Python's \s (and str.strip) accepts is white space of a selector: also CR / CRLF line ends, form feed,
    # vertical tab, no-break and wide spaces
    WS = ["", " ", "  ", "\n", "\t", " \n ", "\r\n", "\r", "\x0c", "\x0b", "\xa0", "\u2003", " \r\n\t"]
    for i, t in enumerate(toks):
        if t.type == "OPERATOR" and t.value == "":
            continue
        lex.append({"ty": t.type or "NONE", "v": t.value})
    out = []
    s = rng.choice(WS)
    if s:
        out.append({"ty": "WS", "v": "w"})
    textv = s
    for i, l in enumerate(lex):
        out.append(l)
        textv += l["v"]
        nxt = lex[i + 1] if i + 1 < len(lex) else None
        need = (l["v"] == "as" or (nxt and nxt["v"] == "as"))
        wordy = nxt is not None and l["ty"] != "OPERATOR" and nxt["ty"] != "OPERATOR"
        if wordy:
            continue        # no white space between two operands (that would be a different selector)
        s = rng.choice(WS[1:] if need else WS)
        if s:
            out.append({"ty": "WS", "v": "w"})
            textv += s
    return textv, out


def main():
    tier, seed, outp = sys.argv[1], int(sys.argv[2]), sys.argv[3]
    rng = random.Random(seed)
    big = tier == "thorough"
    cases = []
    seen = set()

    kept = []

    def attrs_of(obj):
        try:
            m = obj.main
            return {"ok": True, "main": NONE if m is None else cs(m), "focus": bool(obj.focus)}
        except AttributeError:
            return {"ok": False, "main": NONE, "focus": False}

    def add_parse(s, src):
        if s in seen:
            return
        seen.add(s)
        o, obj = outcome(s)
        at = {"ok": False, "main": NONE, "focus": False, "main2": NONE, "focus2": False, "same_later": True}
        if isinstance(obj, (Element, Call)):
            if len(cases) % 2 == 0:
                # every other compiled selector is first asked which captures carry a focus mark (the lookup idiom
                # sel.all_tags[n], an empty set when there is none): reading must not change what the selector is
                try:
                    obj.all_tags[1], obj.all_tags[2]
                except (AttributeError, TypeError):
                    pass
            at.update(attrs_of(obj))
            kept.append((len(cases), obj, s))
        cases.append({"id": len(cases), "kind": "parse", "src": src, "text": s, "toks": tokens(s), "out": o, "attrs": at})

    maxlen = 4 if big else 3
    for n in range(0, maxlen + 1):
        for toks in itertools.product(ALPHA, repeat=n):
            add_parse("".join(toks), "exhaustive")
    for _ in range(40000 if big else 2500):
        s = operand(rng, 3)
        if rng.random() < 0.5:
            s = mutate(rng, s)
        if len(s) < 120:
            add_parse(s, "grammar")
    for _ in range(8000 if big else 600):
        add_parse("".join(rng.choice(ALPHA) for _ in range(rng.randint(maxlen + 1, 9))), "random")
    for extra in json.loads(sys.argv[4]) if len(sys.argv) > 4 else []:
        add_parse(extra, "witness")
    # selectors that differ only inside a quoted value, or only by white space that separates two tokens: they are different
    # selectors (a malformed one stays malformed) whatever was compiled before them in this process
    for near in ["f(x='a  b') > y", "f(x='a b') > y", "f( x = 'a  b' )\n  > y", "f(x='ab') > y", "f(x=' a b ') > y",
                 "f > ab", "f > a b", "f(x) as v", "f(x) a s v", "f(!x, !!ab)", "f(!x, ! !ab)", "f(x, y)", "f(x , y)", "f(xy)",
                 "f(x=1=2) > y", "f(x=a=b) > y", "f(x) = 1 = 2", "f > y=2=2", "f(x~p(3)~p(4)) > y",
                 # a parenthesised comma group among the arguments of a call
                 "f((x, y), z)", "f((x, y), !z)", "g(x) > f((x, y), #value)", "g(f((x, y), z))", "f(((x, y), z), #value)", "f((x, y))", "f(x, (y, z))"]:
        add_parse(near, "near-miss")
    # laws
    for law, mk in LAWS:
        for fn in FNS:
            for cap in CAPS:
                for ctx in (CTX if big else CTX[:5]):
                    l, r = mk(fn, cap, ctx)
                    key = (law, l, r)
                    if key in seen:
                        continue
                    seen.add(key)
                    lo, lobj = outcome(l)
                    ro, robj = outcome(r)
                    cases.append({"id": len(cases), "kind": "law", "law": law, "ltext": l, "rtext": r, "ltoks": tokens(l),
                                  "rtoks": tokens(r), "lout": lo, "rout": ro, "same": lobj is not None and lobj is robj})
    # near misses: two texts that differ only inside a quoted value, or only by white space that separates two tokens, are two
    # different selectors (the second one possibly malformed) - also when the first was compiled earlier in this process
    NEAR = [("f(x='a b') > y", "f(x='a  b') > y"), ("f(x='ab') > y", "f(x='a b') > y"), ("f > ab", "f > a b"),
            ("f(x) as v", "f(x) a s v"), ("f(!x, !!ab)", "f(!x, ! !ab)"), ("f(xy)", "f(x y)")]
    for l, r in NEAR:
        lo, lobj = outcome(l)
        ro, robj = outcome(r)
        cases.append({"id": len(cases), "kind": "distinct", "law": "near-miss", "ltext": l, "rtext": r, "ltoks": tokens(l),
                      "rtoks": tokens(r), "lout": lo, "rout": ro, "same": lobj is not None and lobj is robj})
    # white space
    bases = [c["text"] for c in cases if c["kind"] == "parse" and c["out"]["k"] != "X" and c["src"] == "grammar"]
    bases += [c["ltext"] for c in cases if c["kind"] == "law" and c["lout"]["k"] != "X"]
    rng.shuffle(bases)
    bases = bases[:6000 if big else 600] + [r for l, r in NEAR if outcome(r)[0]["k"] != "X"]
    for b in bases:
        bo, bobj = outcome(b)
        v, lexemes = respace(rng, b)
        vo, vobj = outcome(v)
        cases.append({"id": len(cases), "kind": "ws", "text": v, "base_text": b, "lexemes": lexemes, "toks": tokens(v),
                      "out": vo, "base": bo, "same": vobj is not None and vobj is bobj})
    # creation / activation time refusals (C18 second sentence)
    from ptera.probe import probing
    from ptera import tag

    def fa(x):
        y = x + 1
        return y

    def notafunc():
        pass
    env = {"fa": fa, "three": 3, "T": tag.T, "cls": dict, "both": tag.T & tag.U,     # both: a combination of tags is not a tag
           "lst": [1, 2], "dct": {"k": 1}}
    R = ["SelectorError"]
    SEL = [("unknown-meta", "fa > #nope", "refuse", False, R), ("unknown-meta-ctx", "fa(#bogus) > y", "refuse", False, R),
           ("unknown-meta-prefix", "fa > #values", "refuse", False, R), ("unknown-meta-prefix2", "fa(#enter2) > y", "refuse", False, R),
           ("unknown-meta-prefix3", "fa > #exits", "refuse", False, R), ("unknown-meta-prefix4", "fa > #yields", "refuse", False, R),
           ("unknown-meta-prefix5", "fa(#error_) > y", "refuse", False, R), ("unknown-meta-prefix6", "fa > #received", "refuse", False, R),
           ("category-not-tag", "fa > y:three", "refuse", False, ["TypeError"]), ("category-not-tag2", "fa(x:cls) > y", "refuse", False, ["TypeError"]),
           ("unresolvable-fn", "zzz > y", "refuse", False, R), ("unresolvable-fn-dotted", "fa.nothing > y", "refuse", False, R),
           ("unresolvable-numeric-prefix", "1f > y", "refuse", False, R), ("unresolvable-numeric-prefix2", "-1x(y)", "refuse", False, R),
           ("unresolvable-category-numeric", "fa > y:2x", "refuse", False, R), ("unresolvable-value-numeric", "fa(x=0x10) > y", "refuse", False, R),
           ("unresolvable-value-numeric2", "fa(x=1.2.3) > y", "refuse", False, R), ("unresolvable-value-word", "fa(x=nowhere) > y", "refuse", False, R),
           ("numeric-value-ok", "fa(x=12) > y", "accept", False, R), ("float-value-ok", "fa(x=1.5) > y", "accept", False, R),
           ("string-value-ok", "fa(x='s') > y", "accept", False, R),
           ("second-focus-alone", "fa(!!y)", "refuse", False, ["ValueError", "SelectorError"]),
           ("second-focus-alone2", "fa(x, !!y)", "refuse", False, ["ValueError", "SelectorError"]),
           ("override-without-focus", "fa(y)", "refuse", True, ["Exception", "SelectorError", "TypeError"]),
           ("override-without-focus-nested", "ga(fa(y))", "refuse", True, ["Exception", "SelectorError", "TypeError"]),
           ("override-without-focus-nested2", "ga(u, fa(x, y))", "refuse", True, ["Exception", "SelectorError", "TypeError"]),
           ("override-without-focus-nested3", "ga(fa(y) as r)", "refuse", True, ["Exception", "SelectorError", "TypeError"]),
           ("unknown-variable", "fa > nothere", "refuse", False, R),
           ("not-a-function", "three > y", "refuse", False, ["TypeError"]), ("builtin-fn", "cls > y", "refuse", False, ["TypeError"]),
           ("unknown-module-ref", "/no.such.module/fn > y", "refuse", False, ["CodeNotFoundError", "SelectorError"]),
           ("unknown-ref", "/harness.worlds.lifeworld/nothing > y", "refuse", False, ["CodeNotFoundError", "SelectorError"]),
           ("ok-unhashable-value", "fa(x=lst) > y", "accept", False, R), ("ok-unhashable-value2", "fa(x=dct, !y)", "accept", False, R),
           ("ok-chained-eq", "fa(x=1=2) > y", "accept", False, R), ("ok-chained-eq2", "fa > y=2=2", "accept", False, R),
           ("ok-chained-eq-call", "fa(x) = 1 = 2", "accept", False, R),
           ("ok-plain", "fa > y", "accept", False, R), ("tag-on-untagged", "fa > y:T", "refuse", False, R), ("ok-ctx", "fa(x) > y", "accept", False, R),
           ("ok-wrap", "fa(!x, !!y)", "accept", False, R), ("ok-override", "fa > y", "accept", True, R),
           ("ok-loopvar-unknown", "fa > #loop_zz", "refuse", False, R), ("list-selector", "fa, fa", "refuse", False, ["SyntaxError", "SelectorError"])]
    # a refusal next to a value condition of every kind (the refusal message spells the whole selector out): matcher objects
    # without a __name__ (ptera.tools, functools.partial), plain functions, values
    import functools
    from ptera import tools as _tools
    env.update({"every": _tools.every, "between": _tools.between, "lt": _tools.lt, "part": functools.partial(lambda a, b: a < b, 0),
                "positive": (lambda v: v > 0)})
    for cname, cond in [("match-object", "x~every(2)"), ("match-object2", "x~between(1, 3)"), ("match-partial", "x~part"),
                        ("match-function", "x~positive"), ("match-value-call", "x=every(2)"), ("match-string", "x='s'")]:
        SEL += [(f"ok+{cname}", f"fa({cond}) > y", "accept", False, R),
                (f"unknown-meta+{cname}", f"fa({cond}) > #nope", "refuse", False, R),
                (f"unknown-variable+{cname}", f"fa({cond}) > nothere", "refuse", False, R),
                (f"tag-on-untagged+{cname}", f"fa({cond}) > y:T", "refuse", False, R),
                (f"unknown-meta+{cname}@child", f"ga > fa({cond}) > #nope", "refuse", False, R),
                (f"unknown-meta-cond+{cname}", f"fa(#nope, {cond}) > y", "refuse", False, R)]
    # keywords inside the calls of a condition value: a chained keyword is not a keyword
    KW = ["SyntaxError", "SelectorError"]
    SEL += [("ok-keyword-value", "fa(x~between(start=1, end=3)) > y", "accept", False, R),
            ("chained-keyword", "fa(x~between(start=end=3)) > y", "refuse", False, KW),
            ("chained-keyword-nested", "fa(x=every(lt(start=end=3))) > y", "refuse", False, KW),
            ("chained-keyword-focus", "fa > y~between(start=end=3)", "refuse", False, KW),
            ("chained-keyword@child", "ga > fa(x~between(start=end=3)) > y", "refuse", False, KW),
            ("keyword-not-a-name", "fa(x~between(lt(2)=1)) > y", "refuse", False, KW)]
    # every kind of malformation at every position of a call path (ga calls fa)
    def ga(u):
        w = fa(u) + 1
        return w
    env["ga"] = ga
    CAPPOS = [("root-focus", "fa > {}", "y"), ("root-ctx", "fa({}) > y", "x"), ("child-focus", "ga > fa > {}", "y"),
              ("child-ctx", "ga > fa({}) > y", "x"), ("outer-ctx", "ga({}) > fa > y", "u"), ("incall-child", "ga(fa({}, !y))", "x")]
    CAPBAD = [("unknown-meta", lambda v: "#nope", R), ("category-not-tag", lambda v: v + ":three", ["TypeError"]),
              ("category-tag-combination", lambda v: v + ":both", ["TypeError"]),
              ("category-not-tag-cls", lambda v: v + ":cls", ["TypeError"]),
              ("unknown-variable", lambda v: "nothere", R), ("tag-on-untagged", lambda v: v + ":T", R),
              ("generic-tag-nowhere", lambda v: "$z:@T", R),
              # any identifier names a tag, also one that looks like a special attribute
              ("dunder-tag-on-untagged", lambda v: v + ":@__T__", R), ("generic-dunder-tag-nowhere", lambda v: "$z:@__zz__", R)]
    for pos, tmpl, v in CAPPOS:
        SEL.append((f"ok@{pos}", tmpl.format(v), "accept", False, R))
        for bad, mk, allowed in CAPBAD:
            SEL.append((f"{bad}@{pos}", tmpl.format(mk(v)), "refuse", False, allowed))
    FNPOS = [("fn-root", "fa{} > y"), ("fn-root-call", "fa{}(x) > y"), ("fn-child", "ga > fa{} > y"), ("fn-outer", "ga{} > fa > y"),
             ("fn-incall", "ga(fa{}(!y))")]
    for pos, tmpl in FNPOS:
        SEL.append((f"category-not-tag@{pos}", tmpl.format(":three"), "refuse", False, ["TypeError"]))
        SEL.append((f"category-not-tag-cls@{pos}", tmpl.format(":cls"), "refuse", False, ["TypeError"]))
        SEL.append((f"category-tag-combination@{pos}", tmpl.format(":both"), "refuse", False, ["TypeError"]))
    SEL += [("unresolvable-fn@child", "ga > zzz > y", "refuse", False, R), ("unresolvable-fn@outer", "zzz > fa > y", "refuse", False, R),
            ("not-a-function@child", "ga > three > y", "refuse", False, ["TypeError"]),
            ("second-focus-alone@child", "ga > fa(!!y)", "refuse", False, ["ValueError", "SelectorError"]),
            ("second-focus-alone@incall", "ga(fa(x, !!y))", "refuse", False, ["ValueError", "SelectorError"])]

    # unusual but legal arguments of probing(): an explicitly empty environment resolves nothing (the caller's scope must not
    # be consulted instead), and probe_type="total" does not waive the focus rules
    EXTRA = {"empty-env": {"env": {}}, "empty-env-dict": {"env": dict()},
             "total:second-focus-alone": {"probe_type": "total"}, "total:second-focus-alone2": {"probe_type": "total"},
             "total:second-focus-alone@child": {"probe_type": "total"}, "total:ok": {"probe_type": "total"},
             "immediate:second-focus-alone": {"probe_type": "immediate"}}
    SEL += [("empty-env", "fa > y", "refuse", False, R), ("empty-env-dict", "ga > fa > y", "refuse", False, R),
            ("total:second-focus-alone", "fa(!!y)", "refuse", False, ["ValueError", "SelectorError"]),
            ("total:second-focus-alone2", "fa(x, !!y)", "refuse", False, ["ValueError", "SelectorError"]),
            ("total:second-focus-alone@child", "ga > fa(!!y)", "refuse", False, ["ValueError", "SelectorError"]),
            ("immediate:second-focus-alone", "fa(!!y)", "refuse", False, ["ValueError", "SelectorError"]),
            ("total:ok", "fa(x, y)", "accept", False, R)]

    # the same refusals when every function of the path was tooled beforehand (@tooled): nothing has to be installed at activation,
    # the selector is verified all the same
    import re
    from ptera import tooled

    @tooled
    def ft(x):
        y = x + 1
        return y

    @tooled
    def gt(u):
        w = ft(u) + 1
        return w
    env["ft"], env["gt"] = ft, gt
    for what, text, expect, ovr, allowed in list(SEL):
        if what in EXTRA or not re.search(r"\b(fa|ga)\b", text):
            continue
        SEL.append(("tooled:" + what, re.sub(r"\bga\b", "gt", re.sub(r"\bfa\b", "ft", text)), expect, ovr, allowed))

    def attempt(text, ovr, what=""):
        _in_scope = (fa, ga)          # the calling scope knows both functions: an empty env must still resolve nothing
        try:
            kw = dict(EXTRA.get(what, {}))
            if "env" not in kw:
                kw["env"] = env
            if "probe_type" in kw:
                p = probing(text, env=kw["env"], probe_type=kw["probe_type"])
            else:
                p = probing(text, env=kw["env"], overridable=ovr)
            with p:
                ga(1)
                gt(1)
            return "ok"
        except BaseException as ex:
            return type(ex).__name__

    def attempt_old(text, ovr):
        try:
            p = probing(text, env=env, overridable=ovr)
            with p:
                ga(1)
            return "ok"
        except BaseException as ex:
            return type(ex).__name__

    def inspect_selector(text):
        # reading the public attributes of the compiled (interned) selector must not change what a later activation does
        try:
            from ptera.selector import select
            sel = select(text, env=env)
        except BaseException:
            return
        for attr in ("main", "focus", "hasval", "valid", "all_tags", "all_captures", "all_values"):
            try:
                getattr(sel, attr)
            except BaseException:
                pass
        try:
            str(sel), repr(sel), sel.encode(), sel.problems()
        except BaseException:
            pass
    for what, text, expect, ovr, allowed in SEL:
        o = attempt(text, ovr, what)
        again = [attempt(text, ovr, what)]
        inspect_selector(text)
        again.append(attempt(text, ovr, what))
        cases.append({"id": len(cases), "kind": "select", "what": what, "text": text, "expect": expect, "outcome": o, "again": again,
                      "allowed": allowed + ["SyntaxError"]})
    # selectors are interned for the life of the process: what they report must not have changed meanwhile
    for ix, obj, text in kept:
        again = attrs_of(obj)
        cases[ix]["attrs"]["main2"], cases[ix]["attrs"]["focus2"] = again["main"], again["focus"]
        # ... and compiling the same text again, thousands of compilations later, gives the very same object
        cases[ix]["attrs"]["same_later"] = outcome(text)[1] is obj
    json.dump(cases, open(outp, "w"))
    import collections
    print(json.dumps({"cases": len(cases), "kinds": collections.Counter(c["kind"] for c in cases)}))


if __name__ == "__main__":
    main()
