"""Probe stream histories (C17): pipeline stages, activation, calls, deactivation, re-activation attempts.

usage: python -m harness.drivers.stream_driver CASES.json OUT.json
ops: ["stage", sid, kind] ["act"] ["deact", how] ["call", v] ["react"]
"""
import json
import sys

from harness.worlds import lifeworld as LW
from ptera.overlay import HandlerCollection
from ptera.probe import Probe, global_probes

ORIG = LW.f.__code__


class Abort(BaseException):
    pass


def run_case(case):
    wrap = case.get("sel") == "wrap"
    # wrap: a selector with two focuses - every call gives a "begin" event (a is bound) and an "end" event (r is bound)
    p = Probe("f(!a, !!r)" if wrap else "f > a", env={"f": LW.f})
    stages = {}
    steps = []
    for op in case["ops"]:
        outcome = "ok"
        try:
            if op[0] == "stage":
                sid, kind = op[1], op[2]
                src = p["a"]
                obs = src if kind == "accum" else getattr(src, kind)()
                rec = {"kind": kind, "vals": [], "done": 0, "err": 0, "bare": len(op) > 3 and op[3] == "bare"}
                if len(op) > 3 and op[3] == "reent":
                    # a listener that calls the probed function again from inside the delivery (once per outer event)
                    def on_next(v, rec=rec):
                        rec["vals"].append(v)
                        if v < 100:
                            LW.f(v + 100)
                    obs.subscribe(on_next, lambda e, rec=rec: rec.__setitem__("err", rec["err"] + 1),
                                  lambda rec=rec: rec.__setitem__("done", rec["done"] + 1))
                elif len(op) > 3 and op[3] == "boom":
                    # a subscriber whose completion callback raises something that is not an Exception (an abort request)
                    def done(rec=rec):
                        rec["done"] += 1
                        raise Abort("completion")
                    obs.subscribe(lambda v, rec=rec: rec["vals"].append(v), lambda e, rec=rec: rec.__setitem__("err", rec["err"] + 1), done)
                elif len(op) > 3:
                    obs.subscribe(lambda v, rec=rec: rec["vals"].append(v))
                else:
                    obs.subscribe(lambda v, rec=rec: rec["vals"].append(v), lambda e, rec=rec: rec.__setitem__("err", rec["err"] + 1),
                              lambda rec=rec: rec.__setitem__("done", rec["done"] + 1))
                stages[sid] = rec
            elif op[0] == "act" or op[0] == "react":
                how = op[1] if len(op) > 1 else "enter"
                if how == "activate":
                    p.activate()                 # the global-probe way of (re-)activating
                elif how == "derived":
                    p["a"].activate()            # ... through a derived stream
                else:
                    p.__enter__()
            elif op[0] == "deact":
                if op[1] == "exc":
                    try:
                        raise KeyError("user")
                    except KeyError as ex:
                        p.__exit__(type(ex), ex, ex.__traceback__)
                elif op[1] == "genexit":
                    p.__exit__(GeneratorExit, GeneratorExit(), None)      # left by closing the generator the block sits in
                elif op[1] == "explicit":
                    p.deactivate()
                elif op[1] == "derived":
                    p["a"].deactivate()          # through a derived stage handle: must reach the root probe
                else:
                    p.__exit__(None, None, None)
            elif op[0] == "call":
                LW.f(op[1])
            elif op[0] == "calld":
                # the probe is deactivated while a call of f is in progress (from the function f calls), and a stage is attached
                # right afterwards; f then finishes
                orig_g = LW.g

                def hook(y, op=op):
                    LW.g = orig_g
                    if op[2] == "explicit":
                        p.deactivate()
                    else:
                        p.__exit__(None, None, None)
                    rec = {"kind": "accum", "vals": [], "done": 0, "err": 0, "bare": False}
                    p["a"].subscribe(lambda v, rec=rec: rec["vals"].append(v), lambda e, rec=rec: rec.__setitem__("err", rec["err"] + 1),
                                     lambda rec=rec: rec.__setitem__("done", rec["done"] + 1))
                    stages[op[3]] = rec
                    return orig_g(y)
                LW.g = hook
                try:
                    LW.f(op[1])
                finally:
                    LW.g = orig_g
        except (Exception, Abort) as ex:
            outcome = type(ex).__name__
        cur = HandlerCollection.current.get()
        steps.append({"op": op, "outcome": outcome,
                      "stages": {sid: {"kind": r["kind"], "vals": list(r["vals"]), "done": r["done"], "err": r["err"], "bare": r["bare"]} for sid, r in stages.items()},
                      "orig": LW.f.__code__ is ORIG, "curnone": cur is None or not cur.handler_pairs,
                      "registered": p in global_probes})
    # teardown (not part of the trace)
    if p in global_probes:
        try:
            p._observers.clear()
            p.__exit__(None, None, None)
        except Exception:
            pass
    HandlerCollection.current.set(None)
    st = getattr(LW.f, "__ptera_stack__", None)
    if st is not None:
        st.instrument_count = 0
        st.captures.clear()
        st._apply(LW.f)
    return {"id": case["id"], "per": 2 if wrap else 1, "steps": steps}


def main():
    cases = json.load(open(sys.argv[1]))
    out = [run_case(c) for c in cases]
    json.dump(out, open(sys.argv[2], "w"))
    print(json.dumps({"traces": len(out)}))


if __name__ == "__main__":
    main()
