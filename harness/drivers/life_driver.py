"""Execute probe life-cycle histories against the real ptera; log the projected state after every step.

usage: python -m harness.drivers.life_driver CASES.json OUT.json
case: {"id", "ops": [[op, ...]]};  ops: ["act", p] ["deact", p, how] ["call", fn, v]
probes: see PROBES (selector text per probe id); every history starts from fresh Probe objects.
"""
import json
import sys

from harness.worlds import lifeworld as LW
from ptera.overlay import HandlerCollection
from ptera.probe import OverridableProbe, Probe, global_probes

PROBES = {
    "p1": "f > a",
    "p2": "f > b",
    "p3": "f(a as fa) > g > a",
    "p4": "g > a",
    "p5": "f(!b, a)",
    "p6": "f > g > a",
    "p7": "f > c:@T",
    "p8": "f > c",
    "p9": "f(a as ta)",
    "p10": ("f > a", "f(!a)"),
    "p11": "f > $v:@T",
    "p14": "f > a",
    "p15": "f > a",
    "p12": "h1 > a",
    "p13": "h2 > a",
    "q2": "f > b",
    "bad": "f > zzz",
    "bad2": "g > #nope",
    "bad3": "f > lam > a",
    "bad4": "lam > g > a",
    "p16": ("f(a, b)", "g > a"),
    "p17": "g > g > a",
}
ENV = {"f": LW.f, "g": LW.g, "h1": LW.h1, "h2": LW.h2, "lam": (lambda z: z)}
FNS = {"f": LW.f, "g": LW.g, "h1": LW.h1, "h2": LW.h2}
ORIG = {name: fn.__code__ for name, fn in FNS.items()}


class _OverlayProbe:
    """gives a BaseOverlay the enter / exit surface of a Probe"""

    def __init__(self, ol):
        self._ol = ol

    def __enter__(self):
        self._ol.__enter__()
        return self

    def __exit__(self, *a):
        self._ol.__exit__(None, None, None)

    deactivate = __exit__

    def map(self, fn):
        return self


_NonException = type("KeyError", (BaseException,), {})        # reported under the same name as the ordinary listener error


def observe(probes, recv):
    """what can be seen after a step: the streams and the code objects (public), and - as long as this tree still has
    them - ptera's own bookkeeping (handler collection, tooling counts); `internals` says whether the latter could be read"""
    internals = True
    curids, cnt, caps = "none", {name: 0 for name in FNS}, {name: 0 for name in FNS}
    try:
        cur = HandlerCollection.current.get()
        if cur is not None:
            curids = []
            for sel, acc in cur.handler_pairs:
                owner = "?"
                for pid, p in probes.items():
                    if any(acc is h for h in p._ol.handlers):
                        owner = pid
                curids.append(owner)
        for name, fn in FNS.items():
            st = getattr(fn, "__ptera_stack__", None)
            cnt[name] = st.instrument_count if st is not None else 0
            caps[name] = sum(st.captures.values()) if st is not None else 0
    except AttributeError:
        internals = False
        curids, cnt, caps = "none", {name: 0 for name in FNS}, {name: 0 for name in FNS}
    gp = sorted(pid for pid, p in probes.items() if p in global_probes or (isinstance(p, _OverlayProbe) and pid in ACTIVE_OV))
    return {"recv": {pid: list(v) for pid, v in recv.items()}, "internals": internals,
            "orig": {name: FNS[name].__code__ is ORIG[name] for name in FNS},
            "cur": {"none": curids == "none", "ids": [] if curids == "none" else curids}, "cnt": cnt, "caps": caps, "gp": gp}


ACTIVE_OV = set()


def run_case(case):
    ACTIVE_OV.clear()
    probes = {}
    recv = {}
    used = {op[1] for op in case["ops"] if op[0] in ("act", "deact")} | {op[2] for op in case["ops"] if op[0] in ("calld", "calle")}
    for pid, text in PROBES.items():
        recv[pid] = []
        if pid not in used:
            continue            # never touched in this history: nothing to create
        if pid == "q2":
            # a plain overlay on pre-tooled functions: BaseOverlay + Immediate, no tooling of its own
            from ptera.interpret import Immediate
            from ptera.overlay import BaseOverlay
            from ptera.selector import select
            h = Immediate(select("f > b", env=ENV), trigger=lambda d, pid=pid: recv[pid].append(sorted([k, c.value] for k, c in d.items())))
            probes[pid] = _OverlayProbe(BaseOverlay(h))
            continue
        if pid == "p9":
            # total mode; its listener raises for the value 13 (after recording the event)
            p = Probe(text, env=ENV, raw=True)

            def boom(data, pid=pid):
                recv[pid].append(sorted([k, c.values[0]] for k, c in data.items()))
                if data["ta"].values == [13]:
                    # when it has seen an odd number of records the listener raises something that is not an Exception (an
                    # interrupt, an exit request): the other probes of the call get their records all the same
                    raise (_NonException if len(recv[pid]) % 2 else KeyError)("listener")
            p.subscribe(boom)
        elif pid in ("p14", "p15"):
            # overridable: the event reaches the stream through the intercept call; the pipeline answers with the value itself
            p = OverridableProbe(text, env=ENV)
            p.subscribe(lambda data, pid=pid: recv[pid].append(sorted([k, v] for k, v in data.items())))
            p.override(lambda data: data["a"])
        else:
            p = Probe(*text, env=ENV) if isinstance(text, tuple) else Probe(text, env=ENV)
            p.subscribe(lambda data, pid=pid: recv[pid].append(sorted([k, v] for k, v in data.items())))
        probes[pid] = p
    steps = []
    for op in case["ops"]:
        outcome = "ok"
        ret = -1
        try:
            if op[0] == "act":
                probes[op[1]].__enter__()
                if isinstance(probes[op[1]], _OverlayProbe):
                    ACTIVE_OV.add(op[1])
            elif op[0] == "deact":
                p = probes[op[1]]
                ACTIVE_OV.discard(op[1])
                if op[2] == "exc":
                    try:
                        raise KeyError("user error")
                    except KeyError as ex:
                        p.__exit__(type(ex), ex, ex.__traceback__)
                elif op[2] == "genexit":
                    # the with-block sits in a generator that is closed while suspended inside it
                    ex = GeneratorExit()
                    p.__exit__(GeneratorExit, ex, None)
                elif op[2] == "explicit":
                    p.deactivate()
                elif op[2] == "twice" and not isinstance(p, _OverlayProbe):
                    # deactivate() called inside the with-block, which then ends: the second deactivation has nothing left to undo
                    # (it is refused - the context variable's token was used - or does nothing; either way nobody else is disturbed)
                    p.deactivate()
                    try:
                        p.__exit__(None, None, None)
                    except (RuntimeError, ValueError):
                        pass
                elif op[2] == "derived":
                    p.map(lambda x: x).deactivate()
                else:
                    p.__exit__(None, None, None)
            elif op[0] == "call":
                ret = ENV[op[1]](op[2])
            elif op[0] == "calld":
                # f(v); at the point where f calls g the probe op[2] is deactivated (by the function f calls); f then finishes
                orig_g = LW.g

                def hook(y, op=op):
                    LW.g = orig_g
                    ACTIVE_OV.discard(op[2])
                    probes[op[2]].__exit__(None, None, None)
                    return orig_g(y)
                LW.g = hook
                try:
                    ret = ENV["f"](op[1])
                finally:
                    LW.g = orig_g
            elif op[0] == "calle":
                # f(v); at the point where f calls g another probe is entered, g runs under it, and the probe is left again
                orig_g = LW.g

                def hook(y, op=op):
                    LW.g = orig_g
                    with probes[op[2]]:
                        return orig_g(y)
                LW.g = hook
                try:
                    ret = ENV["f"](op[1])
                finally:
                    LW.g = orig_g
            elif op[0] == "callno":
                # a call made under no_overlay(): nobody hears it, and afterwards everything is as before
                from ptera.overlay import no_overlay
                with no_overlay():
                    ret = ENV[op[1]](op[2])
            else:
                raise ValueError(op)
        except (Exception, _NonException) as ex:
            outcome = type(ex).__name__
        steps.append({"op": op, "outcome": outcome, "ret": ret, "obs": observe(probes, recv)})
    # leave the process clean for the next history: best-effort teardown (not part of the trace)
    for pid, p in probes.items():
        if p in global_probes:
            try:
                p.__exit__(None, None, None)
            except Exception:
                pass
    HandlerCollection.current.set(None)
    teardown = ""
    for fn in FNS.values():
        st = getattr(fn, "__ptera_stack__", None)
        if st is not None:
            try:
                st.instrument_count = 0
                st.captures.clear()
                st._apply(fn)
            except AttributeError:
                pass
            except Exception as ex:
                # going back to the original code (no probe left) is something the tree must always be able to do
                teardown = type(ex).__name__
    return {"id": case["id"], "steps": steps, "teardown": teardown}


def main():
    cases = json.load(open(sys.argv[1]))
    if cases and cases[0].get("pretooled"):
        # the whole batch runs on functions tooled in place beforehand: their "original" code is the tooled one
        from ptera.overlay import tooled
        for name, fn in FNS.items():
            tooled.inplace(fn)
            ORIG[name] = fn.__code__
    out = [run_case(c) for c in cases]
    json.dump(out, open(sys.argv[2], "w"))
    print(json.dumps({"traces": len(out), "steps": sum(len(t["steps"]) for t in out)}))


if __name__ == "__main__":
    main()
