"""Generator / overlay histories (C09) against the real ptera.

usage: python -m harness.drivers.gen_driver CASES.json OUT.json
case: {"id", "mode": "overlay"|"probe", "ops": [...]}
ops: ["enter", o] ["exit", o] ["new", g] ["next", g] ["close", g] ["drop", g] ["callg", v] ["drive", ""] ["undrive", ""]
overlays: o1 = 'gen > g > a' (requires the generator as an ancestor), o2 = 'g > a', o3 = 'drive > g > a' (the function the
driver's code runs in between "drive" and "undrive")
generators: gen(2) objects of the instrumented generator function of lifeworld
mode overlay: BaseOverlay + Immediate handlers; mode probe: ptera.probing objects entered / left by hand;
mode api: ONE Overlay instance, every block is base.tapping(selector) (a fork of the instance: blocks must not leak into it)
"""
import gc
import json
import sys

from harness.worlds import lifeworld as LW
from ptera.interpret import Immediate
from ptera.overlay import BaseOverlay, HandlerCollection, Overlay, tooled
from ptera.probe import probing
from ptera.selector import select

for fn in (LW.g, LW.gen, LW.drive):
    tooled.inplace(fn)
ENV = {"g": LW.g, "gen": LW.gen, "drive": LW.drive}
TEXT = {"o1": "gen > g > a", "o2": "g > a", "o3": "drive > g > a"}


class Stop(Exception):
    pass


def run_case(case):
    recv = {o: [] for o in TEXT}
    late = {o: [] for o in TEXT}          # what a stage attached AFTER the probe was left receives (must stay empty)
    mode = case.get("mode", "overlay")
    sels = {o: select(t, env=ENV) for o, t in TEXT.items()}
    if mode == "overlay":
        hs = {o: Immediate(sels[o], trigger=lambda d, o=o: recv[o].append(d["a"].value)) for o in TEXT}
        ovl = {o: BaseOverlay(hs[o]) for o in TEXT}
    elif mode == "api":
        base = Overlay()

        class Dest(list):
            def __init__(self, o):
                self.o = o

            def append(self, d):
                recv[self.o].append(d["a"])

        class Lazy:
            """the with-block `with base.tapping(sel, dest): ...`, made when it is entered"""
            def __init__(self, o):
                self.o = o

            def __enter__(self):
                self.cm = base.tapping(sels[self.o], dest=Dest(self.o))
                return self.cm.__enter__()

            def __exit__(self, *a):
                cm, self.cm = self.cm, None
                return cm.__exit__(*a)
        ovl = {o: Lazy(o) for o in TEXT}
    else:
        ovl = {}
        for o, t in TEXT.items():
            # ovprobe: overriding probes whose pipeline answers with the value itself - nothing changes as long as only the
            # handlers of probes that are active are asked
            p = probing(t, env=ENV, overridable=(mode == "ovprobe"))
            p.subscribe(lambda d, o=o: recv[o].append(d["a"]))
            if mode == "ovprobe":
                p.override(lambda d: d["a"])
                # a stage that publishes when the probe completes and asks for an override then: nothing is being assigned at
                # that moment, the request must not wait for the next binding of a generator that outlives the block
                p.count().override(-999)
            ovl[o] = p
    roots = {id(sels[o]): "R" + o[1] for o in TEXT}
    gens = {}
    steps = []

    def owner_of(sel, acc):
        """which overlay a derived (child) pair belongs to: through its root accumulator"""
        seen = set()
        x = acc
        while x is not None and id(x) not in seen:
            seen.add(id(x))
            for o in TEXT:
                if mode == "overlay" and (x is hs[o] or getattr(x, "_trigger", 0) is hs[o]._trigger):
                    return o[1]
            x = getattr(x, "parent", None)
        if mode != "overlay":
            # probing() / Overlay.tap build their own accumulators: identify the overlay by the selector the root pair was made from
            x = acc
            while getattr(x, "parent", None) is not None:
                x = x.parent
            for o in TEXT:
                if getattr(x, "selector", None) is sels[o]:
                    return o[1]
        return "?"

    def snapshot(op, outcome, ret):
        items, seen = [], True
        try:
            cur = HandlerCollection.current.get()
            if cur is not None:
                for sel, acc in cur.handler_pairs:
                    items.append(roots[id(sel)] if id(sel) in roots else "K" + owner_of(sel, acc))
        except AttributeError:
            items, seen = [], False          # this tree keeps its handlers elsewhere: only the deliveries are judged
        steps.append({"op": op, "outcome": outcome, "ret": ret if isinstance(ret, int) else -2, "cur": items, "curseen": seen,
                      "recv": {k: list(v) for k, v in recv.items()}, "late": {k: len(v) for k, v in late.items()}})

    def do(op):
        outcome, ret = "ok", -1
        try:
            if op[0] == "enter":
                ovl[op[1]].__enter__()
            elif op[0] == "exit":
                if case.get("genexit") and mode in ("probe", "ovprobe"):
                    # the block is left because the generator it sits in is closed (GeneratorExit is not an Exception)
                    ovl[op[1]].__exit__(GeneratorExit, GeneratorExit(), None)
                else:
                    ovl[op[1]].__exit__(None, None, None)
                if mode in ("probe", "ovprobe"):
                    ovl[op[1]].subscribe(lambda d, o=op[1]: late[o].append(1))
            elif op[0] == "new":
                gens[op[1]] = LW.gen(2)
            elif op[0] == "next":
                try:
                    ret = next(gens[op[1]])
                except StopIteration as st:
                    outcome = "stop"
                    ret = st.value
            elif op[0] == "close":
                gens[op[1]].close()
            elif op[0] == "drop":
                del gens[op[1]]
                gc.collect()
            elif op[0] == "callg":
                ret = LW.g(op[1])
        except Exception as ex:
            outcome = type(ex).__name__
        snapshot(op, outcome, ret)

    ops = case["ops"]
    i = 0
    while i < len(ops):
        op = ops[i]
        if op[0] == "drive":
            j = next((k for k in range(i + 1, len(ops)) if ops[k][0] == "undrive"), len(ops))
            inner = ops[i + 1:j]

            def run():
                snapshot(op, "ok", -1)
                for q in inner:
                    do(q)
                return 0
            try:
                LW.drive(run)
                out = "ok"
            except Exception as ex:
                out = type(ex).__name__
            if j < len(ops):
                snapshot(ops[j], out, -1)
            i = j + 1
        else:
            do(op)
            i += 1
    for g in list(gens.values()):
        try:
            g.close()
        except Exception:
            pass
    gens.clear()
    gc.collect()
    for o in TEXT:
        try:
            if mode in ("probe", "ovprobe") and getattr(ovl[o], "_activated", False):
                ovl[o].__exit__(None, None, None)
            if mode == "api" and getattr(ovl[o], "cm", None) is not None:
                # a block still open when the history ends: finish it now (its generator would otherwise do so whenever it is collected)
                try:
                    ovl[o].cm.gen.close()
                except Exception:
                    pass
        except Exception:
            pass
    HandlerCollection.current.set(None)
    return {"id": case["id"], "mode": mode, "steps": steps}


def main():
    cases = json.load(open(sys.argv[1]))
    out = [run_case(c) for c in cases]
    json.dump(out, open(sys.argv[2], "w"))
    print(json.dumps({"traces": len(out)}))


if __name__ == "__main__":
    main()
