"""Generator / overlay histories (C09) against the real ptera.

usage: python -m harness.drivers.gen_driver CASES.json OUT.json
ops: ["enter", o] ["exit", o] ["new", g] ["next", g] ["close", g] ["drop", g] ["callg", v]
overlays: o1 = 'gen > g > a' (requires the generator as an ancestor), o2 = 'g > a'
generators: gen(2) objects of the instrumented generator function of lifeworld
"""
import gc
import json
import sys

from harness.worlds import lifeworld as LW
from ptera.interpret import Immediate
from ptera.overlay import BaseOverlay, HandlerCollection, tooled
from ptera.selector import select

for fn in (LW.g, LW.gen):
    tooled.inplace(fn)
ENV = {"g": LW.g, "gen": LW.gen}


def run_case(case):
    recv = {"o1": [], "o2": []}
    h1 = Immediate(select("gen > g > a", env=ENV), trigger=lambda d: recv["o1"].append(d["a"].value))
    h2 = Immediate(select("g > a", env=ENV), trigger=lambda d: recv["o2"].append(d["a"].value))
    ovl = {"o1": BaseOverlay(h1), "o2": BaseOverlay(h2)}
    roots = {id(h1.selector): "R1", id(h2.selector): "R2"}
    gens = {}
    steps = []
    for op in case["ops"]:
        outcome = "ok"
        ret = -1
        try:
            if op[0] == "enter":
                ovl[op[1]].__enter__()
            elif op[0] == "exit":
                ovl[op[1]].__exit__(None, None, None)
            elif op[0] == "new":
                gens[op[1]] = LW.gen(2)
            elif op[0] == "next":
                try:
                    ret = next(gens[op[1]])
                except StopIteration as st:
                    outcome = "stop"
                    ret = st.value
            elif op[0] == "close":
                gens[op[1]].close()
            elif op[0] == "drop":
                del gens[op[1]]
                gc.collect()
            elif op[0] == "callg":
                ret = LW.g(op[1])
        except Exception as ex:
            outcome = type(ex).__name__
        cur = HandlerCollection.current.get()
        items = []
        if cur is not None:
            for sel, acc in cur.handler_pairs:
                if id(sel) in roots:
                    items.append(roots[id(sel)])
                else:
                    owner = "1" if (acc is h1 or getattr(acc, "_trigger", None) is h1._trigger) else "2"
                    items.append("K" + owner)
        steps.append({"op": op, "outcome": outcome, "ret": ret if isinstance(ret, int) else -2, "cur": items,
                      "recv": {k: list(v) for k, v in recv.items()}})
    for g in list(gens.values()):
        try:
            g.close()
        except Exception:
            pass
    gens.clear()
    gc.collect()
    HandlerCollection.current.set(None)
    return {"id": case["id"], "steps": steps}


def main():
    cases = json.load(open(sys.argv[1]))
    out = [run_case(c) for c in cases]
    json.dump(out, open(sys.argv[2], "w"))
    print(json.dumps({"traces": len(out)}))


if __name__ == "__main__":
    main()
