"""C08: run activate / call / deactivate bodies of 2-3 threads on a shared function under explicit schedules.

usage: python -m harness.drivers.thread_driver JOB.json OUT.json
JOB: {"threads": ["A","B"], "explore": {"bound": 1|2, "stride": n, "max": m} | null, "schedules": [[[tid,k],...], ...]}
"""
import importlib.util
import json
import os
import sys
import threading

import ptera
from harness import sched
from ptera.overlay import HandlerCollection
from ptera.probe import probing, global_probes
import ptera.overlay as O
import ptera.probe as PR

T = sys.modules["ptera.transform"]
def _codes(mod, pick=lambda name: True):
    """code objects of the functions and methods defined in a ptera module (whatever they are called in this tree)"""
    out = []
    for name, v in vars(mod).items():
        if isinstance(v, type) and v.__module__ == mod.__name__:
            out += [c for n, c in ((f.__name__, f.__code__) for f in vars(v).values() if hasattr(f, "__code__")) if pick(name + "." + n)]
        elif hasattr(v, "__code__") and getattr(v, "__module__", None) == mod.__name__ and pick(name):
            out.append(v.__code__)
    return out


# the tooling: everything in ptera.transform, and what overlay / probe do to install and remove it
WATCH = _codes(T, lambda n: n.split(".")[0] in ("StackedTransforms", "SyncedStackedTransforms", "TransformSet")) \
    + _codes(O, lambda n: "tool" in n.lower()) + _codes(PR, lambda n: n.startswith("Probe.") and ("tool" in n.lower() or n in ("Probe._enter", "Probe._exit")))
if len(WATCH) < 8:
    WATCH = _codes(T) + _codes(O, lambda n: "tool" in n.lower()) + _codes(PR, lambda n: n.startswith("Probe._"))
import ptera.interpret as IN
# the call path: what every call of an instrumented function runs (handler matching, its caches, the interaction)
WATCH_CALL = [c for c in _codes(O) + _codes(IN, lambda n: n.split(".")[0] in ("Interactor", "WorkingFrame")) if c not in WATCH]
# D and E use the very same selector text: the compiled selector is interned, whatever is cached per selector is shared
SEL = {"A": ("f > a", "a", lambda x: x + 1), "B": ("f > b", "b", lambda x: (x + 1) * 2), "C": ("f(a) > b", "b", lambda x: (x + 1) * 2),
       "D": ("f > a", "a", lambda x: x + 1), "E": ("f > a", "a", lambda x: x + 1),
       # T probes through a tag only ($v:@W selects c, the one variable carrying it): next to a named capture of another
       # thread the union of both must be instrumented
       "T": ("f > $v:@W", "v", lambda x: (x + 1) * 2 + 1),
       # S supplies the declared-only variable d through an overriding probe (its own events are not looked at)
       "S": ("f > d", "d", lambda x: 5)}
ARG = {"A": 1, "B": 10, "C": 100, "D": 1000, "E": 2000, "T": 30, "S": 40}
PATH = os.path.join(os.path.dirname(os.path.dirname(os.path.abspath(__file__))), "worlds", "thrworld.py")
COUNT = [0]


def fresh_world():
    COUNT[0] += 1
    name = f"thrworld_{COUNT[0]}"
    spec = importlib.util.spec_from_file_location(name, PATH)
    mod = importlib.util.module_from_spec(spec)
    sys.modules[name] = mod
    spec.loader.exec_module(mod)
    return mod


def run_one(S, tids, plan):
    mod = fresh_world()
    f = mod.f
    orig = f.__code__
    res = {t: {"events": [], "rets": [], "exc": ""} for t in tids}

    def body(t):
        def run():
            try:
                with probing(SEL[t][0], env={"f": f}, overridable=(t == "S")) as p:
                    if t == "S":
                        p.override(5)
                    else:
                        p.subscribe(lambda d, t=t: res[t]["events"].append(sorted([k, v] for k, v in d.items())))
                    res[t]["rets"].append(f(ARG[t]))
                    res[t]["rets"].append(f(ARG[t] + 1))
            except BaseException as ex:
                res[t]["exc"] = type(ex).__name__
        return run
    counts = S.run({t: body(t) for t in tids}, plan)
    st = getattr(f, "__ptera_stack__", None)
    final = {"orig": f.__code__ is orig, "cnt": st.instrument_count if st else 0,
             "caps": sum(abs(v) for v in st.captures.values()) if st else 0,
             "registered": len([p for p in global_probes]), "cur_none": HandlerCollection.current.get() is None}
    for p in list(global_probes):
        global_probes.discard(p)
    del sys.modules[mod.__name__]
    return {"plan": [list(s) for s in plan], "stops": S.stops, "counts": counts, "threads": res, "final": final, "lock_blocks": S.lock_blocks,
            "args": {t: ARG[t] for t in tids}}


def main():
    job = json.load(open(sys.argv[1]))
    tids = job["threads"]
    S = sched.Scheduler(WATCH + (WATCH_CALL if job.get("watch") == "call" else []), entry_files=("thrworld.py",))
    if hasattr(T, "_tooling_lock"):
        coop = sched.CoopRLock(S)
        T._tooling_lock = coop
        O._tooling_lock = coop
    out = []
    try:
        base = run_one(S, tids, [])
        out.append(base)
        plans = [list(map(list, p)) for p in job.get("schedules", [])]
        ex = job.get("explore")
        if ex:
            n = base["counts"]
            stride = ex.get("stride", 1)
            for first in tids:
                for second in tids:
                    if second == first:
                        continue
                    for i in range(0, n.get(first, 0) + 1, stride):
                        plans.append([[first, i], [second, -1]])
                        if ex["bound"] >= 2:
                            for j in range(0, n.get(second, 0) + 1, ex.get("stride2", stride * 4)):
                                plans.append([[first, i], [second, j], [first, -1]])
            # entry-aligned schedules: `first` is inside its block, about to run a call; `second` activates and is stopped at
            # the entry of its own call (the frame exists, not one instruction of it has run); `first` then finishes its round
            for first in tids:
                for second in tids:
                    if second != first:
                        plans.insert(0, [[first, -2], [second, -2], [first, -1]])
                        plans.insert(0, [[first, -2], [second, -2], [first, -2], [second, -1]])
            if len(tids) >= 3:
                # one thread has already finished a complete round (its captures released) before the other two interleave
                for x in tids:
                    rest = [t for t in tids if t != x]
                    for first in rest:
                        for second in rest:
                            if second == first:
                                continue
                            for i in range(0, n.get(first, 0) + 1, stride):
                                plans.append([[x, -1], [first, i], [second, -1]])
            if ex.get("max") and len(plans) > ex["max"]:
                import random
                rng = random.Random(ex.get("seed", 0))
                keep = [p for p in plans if len(p) == 2 or any(k == -2 for _, k in p)]
                rest = [p for p in plans if len(p) != 2]
                rng.shuffle(rest)
                plans = (keep + rest)[:ex["max"]] if len(keep) < ex["max"] else keep[:ex["max"]]
        lo, hi = job.get("slice", [0, len(plans)])
        for p in plans[lo:hi]:
            out.append(run_one(S, tids, p))
    finally:
        S.close()
    for i, r in enumerate(out):
        r["id"] = job.get("first_id", 0) + i
    json.dump(out, open(sys.argv[2], "w"))
    print(json.dumps({"runs": len(out), "base_counts": out[0]["counts"], "plans": len(plans) if 'plans' in dir() else 0}))


if __name__ == "__main__":
    main()
