"""Real runs of the for / with statement shapes of XformStmts.tla (C02).
usage: python -m harness.drivers.stmt_driver <cases.json> <out.json> <workdir>
case: {"id", "st": statement shape (JSON of the TLA+ record), "I": instrumented names}; result adds events / stores / err.
"""
import importlib.util
import json
import os
import sys


def p_target(t):
    k = t["t"]
    if k == "name":
        return t["v"]
    if k == "star":
        return "*" + t["v"]
    if k == "attr":
        return f"{t['v']}.{t['a']}"
    if k == "sub":
        return f"{t['v']}[{t['e']['k']}]"
    inner = ", ".join(p_target(e) for e in t["elts"])
    return "(" + inner + ("," if len(t["elts"]) == 1 else "") + ")"


def shape(t, path):
    """a value shaped like the target; every leaf is the text of its own path (Xform.tla EltIx: a star takes two elements)"""
    if t["t"] != "tuple":
        return path
    star = next((i for i, e in enumerate(t["elts"], 1) if e["t"] == "star"), 0)
    vals = []
    for i, e in enumerate(t["elts"], 1):
        if e["t"] == "star":
            vals += [path + ".rest", path + ".rest"]
        else:
            vals.append(shape(e, f"{path}.{i if star and i > star else i - 1}"))
    return tuple(vals)


def names(t):
    if t["t"] in ("name", "star"):
        return [t["v"]]
    if t["t"] == "tuple":
        return [n for e in t["elts"] for n in names(e)]
    return []


def source(st, fname):
    tgt = p_target(st["t"])
    if st["s"] == "for":
        return f"def {fname}(o, V):\n    for {tgt} in [V]:\n        pass\n    return 0\n"
    return f"def {fname}(o, V):\n    with CM(V) as {tgt}:\n        pass\n    return 0\n"


PRE = '''
class CM:
    def __init__(self, v):
        self.v = v

    def __enter__(self):
        return self.v

    def __exit__(self, *a):
        return False


class O:
    def __init__(self):
        object.__setattr__(self, "log", [])

    def __setattr__(self, k, v):
        self.log.append(["setattr", enc(v)])

    def __setitem__(self, k, v):
        self.log.append(["setitem", enc(v)])


def enc(v):
    return v[0] if isinstance(v, list) and v else v
'''


def main():
    cases = json.load(open(sys.argv[1]))
    work = sys.argv[3]
    keys, src = {}, [PRE]
    for c in cases:
        k = json.dumps(c["st"], sort_keys=True)
        if k not in keys:
            keys[k] = f"fs{len(keys)}"
            src.append("\n\n" + source(c["st"], keys[k]))
    path = os.path.join(work, f"stmtworld_{os.getpid()}.py")
    open(path, "w").write("".join(src))
    spec = importlib.util.spec_from_file_location(f"stmtworld_{os.getpid()}", path)
    mod = importlib.util.module_from_spec(spec)
    sys.modules[spec.name] = mod
    spec.loader.exec_module(mod)
    import contextlib
    import copy
    import types
    from ptera import probing
    out = []
    for c in cases:
        fname = keys[json.dumps(c["st"], sort_keys=True)]
        f0 = getattr(mod, fname)
        fn = types.FunctionType(f0.__code__, f0.__globals__, fname)          # a fresh function object for every case
        events, err = [], ""
        o = mod.O()
        present = names(c["st"]["t"])
        wanted = present if "*" in c["I"] else [n for n in present if n in c["I"]]
        try:
            with contextlib.ExitStack() as stk:
                for n in dict.fromkeys(wanted):
                    p = probing(f"{fname} > {n}", env={fname: fn})
                    p.subscribe(lambda d, n=n: events.append([n, mod.enc(d[n])]))
                    stk.enter_context(p)
                if "*" in c["I"] or "o" in c["I"]:
                    p = probing(f"{fname} > o", env={fname: fn})          # the holder of the attribute / subscript targets
                    p.subscribe(lambda d: None)
                    stk.enter_context(p)
                fn(o, shape(c["st"]["t"], "V" if c["st"]["s"] == "for" else "W"))
        except BaseException as ex:
            err = type(ex).__name__ + ": " + str(ex)[:150]
        out.append(dict(c, events=events, stores=o.log, err=err))
    json.dump(out, open(sys.argv[2], "w"))


if __name__ == "__main__":
    main()
