"""Common runner for the properties decided in the scripted world (C02 dyn, C03, C04, C06 dyn, C07, C11 dyn, C12 e2e)."""
import json
import random

from . import core, scripts, sel as S, worldcheck as W


QUALIFY = {"c": "T", "p": "P"}


def qualified(node):
    """the selector with every named capture of a tagged variable restricted to that tag (c -> c:@T, p -> p:@P);
    None when that changes nothing"""
    changed = [False]

    def q(n):
        caps = []
        for c in n["caps"]:
            if c["name"] in QUALIFY and not c["cat"]:
                c = dict(c, cat=QUALIFY[c["name"]])
                changed[0] = True
            caps.append(c)
        return {"fn": n["fn"], "fcat": n.get("fcat", ""), "caps": caps, "kids": [q(k) for k in n["kids"]]}
    out = q(node)
    return out if changed[0] else None


def add_prehistory(rng, case, mode):
    """history dimension: in probing() mode the functions are instrumented selectively, per capture set; half of the
    cases are preceded by an earlier probe lifetime whose selectors are the tag-qualified variants of the case's own"""
    if mode != "probe" or rng.random() < 0.5:
        return case
    pre = [S.sel_str(q) for q in (qualified(h["sel"]) for h in case["handlers"]) if q is not None]
    if pre:
        case["pre"] = pre
        # make the history matter: wherever c gets its annotated binding, it also gets a plain one (no tag) next to it
        case["script"] = plain_next_to_annotated(rng, case["script"])
    return case


def plain_next_to_annotated(rng, ops):
    script, k = [], 0
    for op in ops:
        if op[0] == "ann_c" and rng.random() < 0.4:
            k += 1
            script.append(["bind_c", 900 + k])          # the plain binding first, the tagged one after it (same call)
        script.append(op)
        if op[0] == "ann_c" and rng.random() < 0.7:
            k += 1
            script.append(["bind_c", 900 + k])
    return script


def run_world(out, tier, seed, gen_case, plan, rule, salt, sample_filter=None, features_of=None):
    """plan: {tier: [(mode, n_cases)]}; gen_case(rng, id, mode) -> case."""
    rng = random.Random(seed * 7919 + salt)
    work = core.scratch(f"{out.prop.lower()}-")
    per = 40 if tier == "quick" else 200
    batches = []
    cid = 0
    for mode, n in plan[tier]:
        left = n
        while left > 0:
            k = min(per, left)
            batches.append((mode, [add_prehistory(rng, gen_case(rng, cid + j, mode), mode) for j in range(k)]))
            cid += k
            left -= k
    all_cases = {c["id"]: (m, c) for m, cs in batches for c in cs}
    traces = W.run_cases(batches, work, par=14)
    fails, results = W.validate(traces, work)
    for i, r in enumerate(results):
        out.add_tlc(f"TracePtera[{i}]", r)
    out.traces += len(traces)
    W.judge(out, traces, fails, lambda tid: {"mode": all_cases[tid][0], **all_cases[tid][1]}, features_of)
    ndlv = sum(len(e["dlv"]) for t in traces for e in t["events"])
    out.extra.update({"deliveries_checked": ndlv,
                      "events": sum(len(t["events"]) for t in traces),
                      "traces_with_deliveries": sum(1 for t in traces if any(e["dlv"] for e in t["events"])),
                      "rule": rule})
    shown = 0
    for t in traces:
        if sample_filter and not sample_filter(t):
            continue
        out.samples.append({"mode": t["mode"], "script": all_cases[t["id"]][1]["script"][:14],
                            "handlers": [(h["kind"], S.sel_str(h["sel"]), h["ovr"]) for h in t["handlers"]],
                            "deliveries": sum(len(e["dlv"]) for e in t["events"]),
                            "verdict": "accepted" if t["id"] not in fails else "rejected"})
        shown += 1
        if shown >= 3:
            break
    return traces, fails


def replay_world(out, path):
    payload = json.load(open(path))["case"]["case"]
    mode = payload.pop("mode")
    work = core.scratch("rpl-")
    traces = W.run_cases([(mode, [payload])], work, par=1)
    fails, results = W.validate(traces, work, par=1)
    for r in results:
        out.add_tlc("TracePtera[replay]", r)
    out.traces += 1
    W.judge(out, traces, fails, lambda tid: {"mode": mode, **payload})
    out.samples.append({"replayed": path, "fails": {str(k): v for k, v in fails.items()}})


def script_fns(script):
    """functions that occur in a script (f always: the top-level call)."""
    fns = {"f"}
    for op, _ in script:
        if op.startswith("call_") or op.startswith("catch_"):
            fns.add(op[-1])
    return "".join(sorted(fns))
