"""Common runner for the properties decided in the scripted world (C02 dyn, C03, C04, C06 dyn, C07, C11 dyn, C12 e2e)."""
import json
import random

from . import core, scripts, sel as S, worldcheck as W


def run_world(out, tier, seed, gen_case, plan, rule, salt, sample_filter=None, features_of=None):
    """plan: {tier: [(mode, n_cases)]}; gen_case(rng, id, mode) -> case."""
    rng = random.Random(seed * 7919 + salt)
    work = core.scratch(f"{out.prop.lower()}-")
    per = 40 if tier == "quick" else 200
    batches = []
    cid = 0
    for mode, n in plan[tier]:
        left = n
        while left > 0:
            k = min(per, left)
            batches.append((mode, [gen_case(rng, cid + j, mode) for j in range(k)]))
            cid += k
            left -= k
    all_cases = {c["id"]: (m, c) for m, cs in batches for c in cs}
    traces = W.run_cases(batches, work, par=14)
    fails, results = W.validate(traces, work)
    for i, r in enumerate(results):
        out.add_tlc(f"TracePtera[{i}]", r)
    out.traces += len(traces)
    W.judge(out, traces, fails, lambda tid: {"mode": all_cases[tid][0], **all_cases[tid][1]}, features_of)
    ndlv = sum(len(e["dlv"]) for t in traces for e in t["events"])
    out.extra.update({"deliveries_checked": ndlv,
                      "events": sum(len(t["events"]) for t in traces),
                      "traces_with_deliveries": sum(1 for t in traces if any(e["dlv"] for e in t["events"])),
                      "rule": rule})
    shown = 0
    for t in traces:
        if sample_filter and not sample_filter(t):
            continue
        out.samples.append({"mode": t["mode"], "script": all_cases[t["id"]][1]["script"][:14],
                            "handlers": [(h["kind"], S.sel_str(h["sel"]), h["ovr"]) for h in t["handlers"]],
                            "deliveries": sum(len(e["dlv"]) for e in t["events"]),
                            "verdict": "accepted" if t["id"] not in fails else "rejected"})
        shown += 1
        if shown >= 3:
            break
    return traces, fails


def replay_world(out, path):
    payload = json.load(open(path))["case"]["case"]
    mode = payload.pop("mode")
    work = core.scratch("rpl-")
    traces = W.run_cases([(mode, [payload])], work, par=1)
    fails, results = W.validate(traces, work, par=1)
    for r in results:
        out.add_tlc("TracePtera[replay]", r)
    out.traces += 1
    W.judge(out, traces, fails, lambda tid: {"mode": mode, **payload})
    out.samples.append({"replayed": path, "fails": {str(k): v for k, v in fails.items()}})


def script_fns(script):
    """functions that occur in a script (f always: the top-level call)."""
    fns = {"f"}
    for op, _ in script:
        if op.startswith("call_") or op.startswith("catch_"):
            fns.add(op[-1])
    return "".join(sorted(fns))
