"""Envelope.tla (M level of the activation envelope, C06): model checking, export, real runs, TraceEnvelope."""
import json
import os
import random
from concurrent.futures import ThreadPoolExecutor

from . import core

CFG = ("CONSTANT MaxLen = {n}\nINIT InitX\nNEXT Next\nCONSTRAINT Collect\nINVARIANT OnlyKnownSignature\nINVARIANT NothingBeforeStart\n"
       "INVARIANT EnterWhenStarted\nINVARIANT NoExitBeforeEnd\nINVARIANT SilentAfterExit\nINVARIANT BalancedWhileRunning\n"
       "INVARIANT SuspendedOwesReceive\nINVARIANT StartedAgrees\n{export}POSTCONDITION Report\nCHECK_DEADLOCK FALSE\n")


def model(out, maxlen, export=True):
    r = core.run_tlc("EnvelopeMC", CFG.format(n=maxlen, export="INVARIANT Export\n" if export else ""), workers=1, timeout=3000)
    out.add_tlc(f"EnvelopeMC[{maxlen}]", r)
    if r.violated:
        out.judge({"clause": "EnvelopeModel"}, {"tlc": r.out[-2500:]})
    sigs = {t[1]: json.loads(t[2]) for t in r.tagged("SIGNATURE")}
    cfgs = [json.loads(t[1]) for t in r.tagged("CFG")]
    return sigs, cfgs


def present(cfg):
    names = ["#enter", "#exit", "#value", "#error"] + cfg["ext"] + cfg["free"] + cfg["params"]
    if cfg["kind"] == "gen":
        names += ["#yield", "#receive"]
    if "bind" in cfg["script"]:
        names.append("a")
    return names


def cases_from(cfgs, rng, first=1):
    cases = []
    for i, c in enumerate(cfgs):
        c = dict(c)
        how = {"close": rng.choice(["close", "drop"]), "star": "each"}
        if "*" in c["I"] and rng.random() < 0.4:
            # the generic capture $x: every variable of the table except #value / #error (documented), incl. the global E a raise reads
            how["star"] = "generic"
        cases.append({"id": first + i, "cfg": c, "how": how})
    return cases


def model_cfg(case):
    """the configuration the machine is run with: generic mode spelled out (see cases_from)"""
    c = dict(case["cfg"])
    if case["how"]["star"] == "generic":
        if "raise" in c["script"]:
            c["ext"] = sorted(set(c["ext"]) | {"E"})
        c["I"] = [n for n in present(c) if n not in ("#value", "#error")]
    elif "*" in c["I"]:
        c["I"] = present(c)
    else:
        c["I"] = [n for n in c["I"] if n in present(c)]
    return c


def execute(cases, work, par=14):
    n = max(1, (len(cases) + par * 2 - 1) // (par * 2))
    chunks = [cases[i:i + n] for i in range(0, len(cases), n)]

    def one(ix):
        jin = os.path.join(work, f"ec{ix}.json")
        jout = os.path.join(work, f"er{ix}.json")
        json.dump(chunks[ix], open(jin, "w"))
        core.run_driver("harness.drivers.env_driver", [jin, jout, work], timeout=1800)
        return json.load(open(jout))
    with ThreadPoolExecutor(max_workers=par) as ex:
        res = list(ex.map(one, range(len(chunks))))
    return [t for r in res for t in r]


def validate(results, work, chunk=1500, par=8):
    recs = [{"id": r["id"], "cfg": model_cfg(r), "out": r["out"], "obs": r["obs"]} for r in results]
    chunks = [recs[i:i + chunk] for i in range(0, len(recs), chunk)]

    def one(ix):
        p = os.path.join(work, f"ev{ix}.json")
        json.dump(chunks[ix], open(p, "w"))
        return core.run_tlc("TraceEnvelope", "TraceEnvelope.cfg", env={"TRACE_FILE": p}, workers=2, timeout=1800)
    with ThreadPoolExecutor(max_workers=par) as ex:
        return list(ex.map(one, range(len(chunks))))


def judge(out, results, tlcs, label="TraceEnvelope"):
    by = {r["id"]: r for r in results}
    for r in results:
        if r.get("act_err"):
            out.judge({"clause": "EnvelopeActivation", "why": "envelope"}, {"case": r})
    seen_mech = set()
    for i, t in enumerate(tlcs):
        out.add_tlc(f"{label}[{i}]", t)
        for tup in t.tagged("FAIL"):
            c = by[tup[1]]
            if tup[2] == "EnvelopeDrift":
                if len(out.drift) < 10:
                    out.drift.append({"clause": "EnvelopeDrift", "cfg": c["cfg"], "how": c["how"], "out": c["out"], "obs": c["obs"], "at": tup[4]})
                out.extra["envelope_drift"] = out.extra.get("envelope_drift", 0) + 1
                continue
            if tup[3]:
                seen_mech.add(tup[2])
                sig = {"clause": tup[2], "why": "envelope"}
            else:
                sig = {"clause": tup[2] + ":unpredicted", "why": "envelope", "generic": c["how"]["star"] == "generic"}
            out.judge(sig, {"case": c, "verdict": list(tup[2:])})
    return seen_mech


def run_pairs(out, tier, work):
    """EnvelopePair.tla: every driving history of two (thorough: three) overlapping generator activations under a wrapper probe"""
    insts, maxops = ('{"A", "B"}', 5) if tier == "quick" else ('{"A", "B", "C"}', 6)
    r = core.run_tlc("EnvelopePair", f"SPECIFICATION Spec\nCONSTANTS Insts = {insts}  MaxOps = {maxops}\nINVARIANT Export\nCHECK_DEADLOCK FALSE\n",
                     workers=1, timeout=1800)
    out.add_tlc("EnvelopePair", r)
    hists = [json.loads(t[1]) for t in r.tagged("HIST")]
    cases = [{"id": 900000 + i, "hist": h} for i, h in enumerate(hists)]
    results = execute(cases, work, par=8)
    p = os.path.join(work, "pairs.json")
    json.dump([{"id": c["id"], "events": c["events"], "still": c["still"], "started": c["started"]} for c in results], open(p, "w"))
    t = core.run_tlc("TraceEnvelopePair", "TraceEnvelopePair.cfg", env={"TRACE_FILE": p}, workers=2, timeout=1800)
    out.add_tlc("TraceEnvelopePair", t)
    by = {c["id"]: c for c in results}
    for tup in t.tagged("FAIL"):
        out.judge({"clause": "WrapPairing:" + tup[2], "why": "envelope"}, {"case": by[tup[1]], "verdict": list(tup[2:])})
    out.traces += len(results)
    out.extra["envelope_pair_histories"] = len(results)
    return results


def run(out, tier, seed):
    rng = random.Random(seed * 7919 + 211)
    maxlen = 3 if tier == "quick" else 4
    sigs, cfgs = model(out, maxlen)
    nsample = 3000 if tier == "quick" else 60000
    if len(cfgs) > nsample:
        # every witness of a derived signature and every all-instrumented configuration of the short scripts stay in
        keep = [c for c in cfgs if "*" in c["I"] and len(c["script"]) <= 2]
        rest = [c for c in cfgs if not ("*" in c["I"] and len(c["script"]) <= 2)]
        cfgs = keep + rng.sample(rest, max(0, nsample - len(keep)))
    cfgs = list(sigs.values()) + cfgs
    cases = cases_from(cfgs, rng)
    work = core.scratch("c06e-")
    results = execute(cases, work)
    tlcs = validate(results, work)
    seen = judge(out, results, tlcs)
    run_pairs(out, tier, work)
    for s in sigs:
        if s not in seen:
            out.drift.append(f"Envelope signature {s} did not reproduce in the real code")
    out.traces += len(results)
    out.extra.update({"envelope_signatures": sorted(sigs), "envelope_cases_run": len(results), "envelope_maxlen": maxlen,
                      "envelope_generators": sum(1 for r in results if r["cfg"]["kind"] == "gen"),
                      "envelope_generic": sum(1 for r in results if r["how"]["star"] == "generic")})
    if results:
        r0 = next((r for r in results if r["cfg"]["kind"] == "gen" and len(r["out"]) > 5), results[0])
        out.samples.append({"envelope_cfg": r0["cfg"], "delivered": r0["out"], "driver_saw": r0["obs"]})
