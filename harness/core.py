"""Shared machinery: TLC runner, evidence writer, known-findings matcher, verdict plumbing.

Everything a check decides comes from a TLC verdict line; this module only runs TLC,
reads its output and turns verdicts into exit codes / evidence.
"""
import json
import os
import re
import shutil
import subprocess
import sys
import tempfile
import time

VERIF = os.path.dirname(os.path.dirname(os.path.abspath(__file__)))
SPECS = os.path.join(VERIF, "specs")
REPO = os.environ.get("PTERA_SRC", "/repo")
PY = "/venv/bin/python"
TLA_JAR = "/opt/veriftools/tla/tla2tools.jar"
TLA_DEPS = "/opt/veriftools/tla/CommunityModules-deps.jar"


class MachineryError(Exception):
    """The check itself is broken (exit 2), never a verdict about ptera."""


_scratch_dirs = []


def scratch(prefix="ptv-"):
    base = os.environ.get("VERIF_SCRATCH") or tempfile.gettempdir()
    d = tempfile.mkdtemp(prefix=prefix, dir=base)
    _scratch_dirs.append(d)
    return d


def cleanup():
    for d in _scratch_dirs:
        shutil.rmtree(d, ignore_errors=True)
    _scratch_dirs.clear()


class TLCResult:
    def __init__(self, out, rc, wall):
        self.out = out
        self.rc = rc
        self.wall = wall
        m = re.search(r"(\d+) states generated, (\d+) distinct states found", out)
        self.generated = int(m.group(1)) if m else 0
        self.distinct = int(m.group(2)) if m else 0
        # PrintT lines of tuples: <<"TAG", ...>>
        self.prints = [ln for ln in out.splitlines() if ln.startswith("<<") or ln.startswith("\"")]
        self.violated = "is violated" in out or "Error: Invariant" in out
        self.error = None
        if rc not in (0,) and not self.violated:
            m2 = re.search(r"Error: (.*)", out)
            self.error = m2.group(1) if m2 else f"tlc exit {rc}"

    def tagged(self, tag):
        """PrintT tuples whose first element is the string `tag` (values may span lines)."""
        res = []
        out = self.out
        for m in re.finditer(r'^<< ?"' + re.escape(tag) + '"', out, flags=re.M):
            v, _k = _pv(out, m.start())
            res.append(v)
        return res

    tagged_multiline = tagged


def run_tlc(module, cfg, env=None, workers=1, timeout=600, simulate=None, depth=None,
            seed=None, extra=None, coverage=False, dfs=False, cwd=None):
    """Run TLC on specs/<module>.tla with specs/<cfg>; returns TLCResult.

    `cfg` may be a path or cfg text (written to scratch)."""
    meta = scratch("tlcmeta-")
    if "\n" in cfg or not cfg.endswith(".cfg"):
        cfgpath = os.path.join(meta, "run.cfg")
        with open(cfgpath, "w") as fh:
            fh.write(cfg)
    else:
        cfgpath = cfg if os.path.isabs(cfg) else os.path.join(SPECS, cfg)
    jopts = ["-XX:+UseParallelGC", "-Xss64m"]
    if dfs:
        jopts.append("-Dtlc2.tool.queue.IStateQueue=StateDeque")
    cmd = ["java", *jopts, "-cp", f"{TLA_JAR}:{TLA_DEPS}", "tlc2.TLC",
           "-workers", str(workers), "-metadir", meta, "-noGenerateSpecTE",
           "-config", cfgpath]
    if simulate:
        cmd += ["-simulate", simulate]
    if depth:
        cmd += ["-depth", str(depth)]
    if seed is not None:
        cmd += ["-seed", str(seed)]
    if coverage:
        cmd += ["-coverage", "1"]
    if extra:
        cmd += list(extra)
    cmd.append(os.path.join(SPECS, module + ".tla") if not os.path.isabs(module) else module)
    e = dict(os.environ)
    e.pop("JAVA_TOOL_OPTIONS", None)
    if env:
        e.update({k: str(v) for k, v in env.items()})
    t0 = time.time()
    try:
        p = subprocess.run(cmd, cwd=cwd or SPECS, env=e, stdout=subprocess.PIPE, stderr=subprocess.STDOUT,
                           timeout=timeout, text=True)
        out, rc = p.stdout, p.returncode
    except subprocess.TimeoutExpired as ex:
        out = (ex.stdout or b"")
        if isinstance(out, bytes):
            out = out.decode("utf8", "replace")
        out += "\nError: TIMEOUT"
        rc = 124
    shutil.rmtree(meta, ignore_errors=True)
    return TLCResult(out, rc, time.time() - t0)


# ---------- parser for TLC value syntax (PrintT output) ----------
def parse_tla(s):
    v, i = _pv(s, 0)
    return v


def _ws(s, i):
    while i < len(s) and s[i] in " \n\t\r":
        i += 1
    return i


def _pv(s, i):
    i = _ws(s, i)
    if s.startswith("<<", i):
        i += 2
        items = []
        i = _ws(s, i)
        if s.startswith(">>", i):
            return items, i + 2
        while True:
            v, i = _pv(s, i)
            items.append(v)
            i = _ws(s, i)
            if s.startswith(">>", i):
                return items, i + 2
            assert s[i] == ",", (s[i:i + 20])
            i += 1
    if s[i] == "{":
        i += 1
        items = []
        i = _ws(s, i)
        if s[i] == "}":
            return items, i + 1
        while True:
            v, i = _pv(s, i)
            items.append(v)
            i = _ws(s, i)
            if s[i] == "}":
                return items, i + 1
            assert s[i] == ","
            i += 1
    if s[i] == "[":
        i += 1
        d = {}
        while True:
            i = _ws(s, i)
            m = re.match(r"([A-Za-z_0-9]+)\s*\|->", s[i:])
            assert m, s[i:i + 30]
            i += m.end()
            v, i = _pv(s, i)
            d[m.group(1)] = v
            i = _ws(s, i)
            if s[i] == "]":
                return d, i + 1
            assert s[i] == ","
            i += 1
    if s[i] == "(":
        # function literal (a :> b @@ c :> d)
        i += 1
        d = {}
        while True:
            k, i = _pv(s, i)
            i = _ws(s, i)
            assert s.startswith(":>", i)
            i += 2
            v, i = _pv(s, i)
            d[k if not isinstance(k, list) else tuple(k)] = v
            i = _ws(s, i)
            if s[i] == ")":
                return d, i + 1
            assert s.startswith("@@", i), s[i:i + 20]
            i += 2
    if s[i] == '"':
        j = i + 1
        buf = []
        while s[j] != '"':
            if s[j] == "\\":
                j += 1
            buf.append(s[j])
            j += 1
        return "".join(buf), j + 1
    m = re.match(r"-?\d+", s[i:])
    if m:
        return int(m.group(0)), i + m.end()
    m = re.match(r"(TRUE|FALSE)", s[i:])
    if m:
        return m.group(0) == "TRUE", i + m.end()
    m = re.match(r"[A-Za-z_][A-Za-z_0-9]*", s[i:])
    if m:
        return m.group(0), i + m.end()
    raise ValueError("cannot parse TLA value at: " + s[i:i + 40])


# ---------- known findings ----------
def load_findings():
    path = os.path.join(VERIF, "known_findings.json")
    if not os.path.exists(path):
        return []
    with open(path) as fh:
        return json.load(fh)["findings"]


def match_finding(findings, prop, sig):
    """sig: dict of features (always includes 'clause'). An open finding matches when every key of its
    'features' equals the value in sig (values may be lists = any-of)."""
    for f in findings:
        if f.get("status") != "open":
            continue
        ok = True
        for k, v in f["features"].items():
            sv = sig.get(k)
            if isinstance(v, list):
                if sv not in v:
                    ok = False
                    break
            elif sv != v:
                ok = False
                break
        if ok:
            return f
    return None


class Outcome:
    """Accumulates what a check run covered and what it found."""

    def __init__(self, prop, tier, seed, level="model_checking"):
        self.prop = prop
        self.tier = tier
        self.seed = seed
        self.level = level
        self.t0 = time.time()
        self.states = 0
        self.transitions = 0
        self.traces = 0
        self.samples = []
        self.extra = {}
        self.assumptions = []
        self.violations = []      # (sig, replay_payload)
        self.known_hit = {}       # finding id -> count
        self.findings = load_findings()
        self.tlc_runs = []
        self.drift = []
        self.clause_filter = None

    def add_tlc(self, name, res):
        if res.error:
            raise MachineryError(f"TLC run {name} failed: {res.error}\n{res.out[-3000:]}")
        self.states += res.distinct
        self.transitions += res.generated
        self.tlc_runs.append({"name": name, "distinct": res.distinct, "generated": res.generated,
                              "wall_s": round(res.wall, 2)})

    def judge(self, sig, payload):
        """sig: feature dict incl. clause; payload: replayable case description."""
        f = match_finding(self.findings, self.prop, sig)
        if f:
            self.known_hit[f["id"]] = self.known_hit.get(f["id"], 0) + 1
        else:
            self.violations.append((sig, payload))

    def finish(self):
        outdir = VERIF
        if os.environ.get("VERIF_NO_EVIDENCE"):
            outdir = scratch("noev-")
        os.makedirs(os.path.join(outdir, "evidence"), exist_ok=True)
        for fid, n in sorted(self.known_hit.items()):
            f = next(x for x in self.findings if x["id"] == fid)
            print(f"KNOWN-FINDING: property={f['property'].split('/')[0]} {f['what']} [{fid}; {n} case(s) this run]")
        rc = 0
        if self.violations:
            rc = 1
            os.makedirs(os.path.join(outdir, "replays"), exist_ok=True)
            seen = set()
            for k, (sig, payload) in enumerate(self.violations):
                key = json.dumps(sig, sort_keys=True)
                if key in seen:
                    continue
                seen.add(key)
                path = os.path.join(outdir, "replays", f"{self.prop}-{len(seen)}.json")
                with open(path, "w") as fh:
                    json.dump({"property": self.prop, "signature": sig, "case": payload}, fh, indent=1, default=str)
                print(f"VIOLATION property={self.prop} replay={path}")
                print(f"  signature: {key}")
                if len(seen) >= 8:
                    break
        cov = {
            "states": max(self.states, 0),
            "transitions": max(self.transitions, 0),
            "traces_validated_against_impl": self.traces,
            "samples": self.samples[:6] or ["<none>"],
            "tlc_runs": self.tlc_runs,
            "known_findings_hit": self.known_hit,
            "violation_signatures": [v[0] for v in self.violations[:20]],
            "model_drift": self.drift,
        }
        cov.update(self.extra)
        ev = {
            "property_id": self.prop,
            "tier": self.tier,
            "seed": self.seed,
            "level": self.level,
            "coverage": cov,
            "assumptions": self.assumptions,
            "wall_s": round(time.time() - self.t0, 2),
            "violations": len(self.violations),
        }
        with open(os.path.join(outdir, "evidence", f"{self.prop}.json"), "w") as fh:
            json.dump(ev, fh, indent=1, default=str)
        return rc


def run_driver(module, args, timeout=900, env=None, stdin=None):
    """Run a harness driver (real ptera executions) in a fresh interpreter."""
    e = dict(os.environ)
    e["PYTHONHASHSEED"] = "0"
    e["PYTHONPATH"] = VERIF + os.pathsep + REPO
    e.setdefault("PTERA_VERIF", "1")
    if env:
        e.update(env)
    p = subprocess.run([PY, "-m", module, *map(str, args)], cwd=VERIF, env=e, input=stdin,
                       stdout=subprocess.PIPE, stderr=subprocess.PIPE, text=True, timeout=timeout)
    if p.returncode != 0:
        raise MachineryError(f"driver {module} {args} failed rc={p.returncode}\n{p.stdout[-2000:]}\n{p.stderr[-4000:]}")
    return p.stdout
