"""Skeleton program families (IR values): F1 = contexts x statement forms, F6 = control-flow nests, random compositions."""
import copy
import random

from . import ir as I


class K:
    """site counter"""

    def __init__(self):
        self.n = 0

    def __call__(self):
        self.n += 1
        return self.n


def tupd(*elts):
    return {"e": "tupd", "elts": list(elts)}


# ---------------------------------------------------------------- statement forms: k -> (stmts, names to show afterwards)
def forms():
    F = {}
    F["name"] = lambda k: ([I.assign(I.name("a"), I.site(k()))], ["a"])
    F["tuple"] = lambda k: ([I.assign(I.tup(I.name("a"), I.name("b")), I.useq(k()))], ["a", "b"])
    F["tuple3"] = lambda k: ([I.assign(I.tup(I.name("a"), I.name("b"), I.name("c")), I.useq(k()))], ["a", "b", "c"])
    F["nested"] = lambda k: ([I.assign(I.tup(I.name("a"), I.tup(I.name("b"), I.name("c"))),
                                       tupd(I.site(k()), tupd(I.site(k()), I.site(k()))))], ["a", "b", "c"])
    F["nested_only"] = lambda k: ([I.assign(I.name("z"), I.site(k())),
                                   I.assign(I.tup(I.name("z"), I.tup(I.name("b"), I.name("c"))),
                                            tupd(I.site(k()), tupd(I.site(k()), I.site(k()))))], ["b", "c"])
    F["nested_first"] = lambda k: ([I.assign(I.tup(I.tup(I.name("a"), I.name("b")), I.name("c")),
                                             tupd(tupd(I.site(k()), I.site(k())), I.site(k())))], ["a", "b", "c"])
    F["chained_nested"] = lambda k: ([I.assign([I.name("w"), I.tup(I.tup(I.name("a"), I.name("b")), I.name("c"))],
                                               tupd(tupd(I.site(k()), I.site(k())), I.site(k())))], ["a", "b", "c"])
    F["walrus_in_comp"] = lambda k: ([I.assign(I.name("a"), I.site(k())),
                                      I.assign(I.name("b"), I.comp("q", k(), I.walrus("a", I.site(k())))), ], ["a"])
    F["walrus_in_genexp_cond"] = lambda k: ([I.assign(I.name("a"), I.site(k())),
                                             I.expr(I.call(k(), I.comp("q", k(), I.add(I.walrus("a", I.read("q")), I.site(k())))))], ["a"])
    F["starred"] = lambda k: ([I.assign(I.tup(I.name("a"), I.star("b")), I.useq(k()))], ["a"])
    F["attr"] = lambda k: ([I.assign(I.name("o"), I.obj(k())), I.assign(I.attr("o", "x"), I.site(k()))], [])
    F["subscript_attr_index"] = lambda k: ([I.assign(I.name("o"), I.obj(k())), I.assign(I.sub("o", I.headof("o")), I.site(k())),
                                             I.assign(I.sub("o", I.headof("o")), I.site(k()))], [])
    F["subscript"] = lambda k: ([I.assign(I.name("o"), I.obj(k())), I.assign(I.sub("o", I.site(k())), I.site(k()))], [])
    F["chained"] = lambda k: ([I.assign([I.name("a"), I.name("b")], I.site(k()))], ["a", "b"])
    F["chained3"] = lambda k: ([I.assign([I.name("a"), I.name("b"), I.name("c")], I.site(k()))], ["a", "b", "c"])
    F["rebind"] = lambda k: ([I.assign(I.name("a"), I.site(k())), I.assign(I.name("b"), I.site(k())),
                              I.assign(I.name("a"), I.site(k()))], ["a", "b"])
    F["aug"] = lambda k: ([I.assign(I.name("a"), I.site(k())), I.aug(I.name("a"), I.site(k()))], ["a"])
    F["aug_attr"] = lambda k: ([I.assign(I.name("o"), I.obj(k())), I.assign(I.attr("o", "x"), I.site(k())),
                                I.aug(I.attr("o", "x"), I.site(k()))], [])
    F["aug_obj"] = lambda k: ([I.assign(I.name("a"), {"e": "acc", "k": k()}), I.assign(I.name("b"), I.read("a")),
                                   I.aug(I.name("a"), I.site(k())), I.expr(I.call(k(), I.read("a"), I.read("b")))], ["a"])
    F["builtin_call"] = lambda k: ([I.assign(I.name("a"), I.site(k())), I.assign(I.name("b"), {"e": "bcall", "fn": "abs", "x": I.read("a")})], ["b"])
    F["ann_tag"] = lambda k: ([I.ann("a", "@T", I.site(k()))], ["a"])
    F["ann_int"] = lambda k: ([I.ann("a", "int", I.site(k()))], ["a"])
    F["ann_then_plain"] = lambda k: ([I.ann("a", "@T", I.site(k())), I.assign(I.name("a"), I.site(k()))], ["a"])
    F["walrus_cond"] = lambda k: ([{"s": "if", "cx": I.walrus("a", I.site(k())), "k": 0,
                                    "body": [I.assign(I.name("b"), I.site(k()))], "orelse": []}], ["a"])
    F["walrus_arg"] = lambda k: ([I.expr(I.call(k(), I.walrus("a", I.site(k()))))], ["a"])
    F["walrus_rhs"] = lambda k: ([I.assign(I.name("b"), I.add(I.walrus("a", I.site(k())), I.site(k())))], ["a", "b"])
    F["import"] = lambda k: ([I.import_("math")], [])
    F["import_as"] = lambda k: ([I.import_("math", "m")], [])
    F["import_dotted"] = lambda k: ([I.import_("os.path")], [])
    F["from_import"] = lambda k: ([I.from_import("math", "pi", "q")], ["q"])
    # a nested function that binds a local with the same name as a variable of the enclosing function, and is called
    def nested_same(k):
        ki = k()
        return ([I.assign(I.name("a"), I.site(k())), I.def_("inner", [I.assign(I.name("a"), I.site(ki)), I.ret(I.read("a"))]),
                 I.assign(I.name("b"), I.callinner("inner", ki)), I.seen("a")], ["a", "b"])
    F["nested_def_same_name"] = nested_same
    F["global_none_read"] = lambda k: ([I.assign(I.name("a"), I.read("GN")), I.assign(I.name("b"), I.site(k())), I.seen("a")], ["a", "b"])
    F["nested_def"] = lambda k: ([I.def_("inner", [I.ret(I.site(k()))]), I.assign(I.name("a"), I.site(k()))], ["a"])
    F["nested_class"] = lambda k: ([I.class_("Kls", [I.pass_()]), I.assign(I.name("a"), I.site(k()))], ["a"])
    F["lambda"] = lambda k: ([I.assign(I.name("a"), I.lam(I.site(k())))], ["a"])
    F["comprehension"] = lambda k: ([I.assign(I.name("a"), I.comp("q", k(), I.read("q")))], ["a"])
    F["match_capture"] = lambda k: ([I.match_(k(), k(), "a", "b", [I.assign(I.name("c"), I.add(I.read("a"), I.read("b")))])], ["a", "b", "c"])
    F["comprehension2"] = lambda k: ([I.assign(I.name("a"), I.comp2("q", "r", k()))], ["a"])
    F["expr_call"] = lambda k: ([I.assign(I.name("a"), I.site(k())), I.expr(I.call(k(), I.read("a")))], ["a"])
    F["del"] = lambda k: ([I.assign(I.name("a"), I.site(k())), I.del_("a"), I.assign(I.name("a"), I.site(k()))], ["a"])
    F["global"] = lambda k: ([I.global_("GV"), I.assign(I.name("GV"), I.site(k()))], [])
    F["global_read"] = lambda k: ([I.global_("GR"), I.assign(I.name("a"), I.add(I.read("GR"), I.site(k())))], ["a"])
    F["return_walrus"] = lambda k: ([I.assign(I.name("a"), I.site(k())), I.if_(k(), [I.ret(I.add(I.walrus("a", I.site(k())), I.site(k())))])], ["a"])
    F["return_mid"] = lambda k: ([I.assign(I.name("a"), I.site(k())), I.if_(k(), [I.ret(I.site(k()))])], ["a"])
    F["with_as"] = lambda k: ([I.with_(k(), "w", [I.assign(I.name("a"), I.read("w"))])], ["a", "w"])
    F["except_as"] = lambda k: ([I.try_([I.raise_(k()), I.assign(I.name("a"), I.site(k()))],
                                        [I.handler("err", [I.assign(I.name("b"), I.site(k()))])])], [])
    F["except_only_name"] = lambda k: ([I.try_([I.raise_(k())],
                                               [I.handler("", [I.assign(I.name("z"), I.site(k())), I.seen("z")])])], [])
    F["for_tuple_target"] = lambda k: ([I.for_(I.tup(I.name("i"), I.name("j")), k(), [I.seen("i")])], [])
    F["for_star_target"] = lambda k: ([I.for_(I.tup(I.name("i"), I.star("j")), k(), [I.seen("i"), I.assign(I.name("a"), I.read("j")), I.seen("a")])], [])
    F["for_attr_target"] = lambda k: ([I.assign(I.name("o"), I.obj(k())), I.for_(I.attr("o", "p"), k(), [I.assign(I.name("a"), I.site(k())), I.seen("a")])], [])
    F["for_sub_target"] = lambda k: ([I.assign(I.name("o"), I.obj(k())), I.for_(I.sub("o", I.site(k())), k(), [I.assign(I.name("a"), I.site(k())), I.seen("a")])], [])
    F["attr_decl"] = lambda k: ([I.assign(I.name("o"), I.obj(k())), I.annattr("o", "p"), I.assign(I.name("a"), I.site(k()))], ["a"])
    F["for_nested_tuple_target"] = lambda k: ([I.for_(I.tup(I.name("i"), I.tup(I.name("j"), I.name("a"))), k(),
                                                      [I.seen("j"), I.if_(k(), [I.brk()]), I.if_(k(), [I.cont()]), I.seen("a")])], [])
    return F


GEN_FORMS = {
    "yield_stmt": lambda k: ([I.expr(I.yld(I.site(k()))), I.assign(I.name("a"), I.site(k())), I.expr(I.yld(I.read("a")))], ["a"]),
    "yield_rhs": lambda k: ([I.assign(I.name("r"), I.yld(I.site(k()))), I.seen("r")], ["r"]),
    "yield_in_loop": lambda k: ([I.for_(I.name("i"), k(), [I.expr(I.call(k(), I.yld(I.read("i"))))])], []),
    # the `return; yield` idiom: the function is a generator only because of a yield that is never reached
    "dead_yield": lambda k: ([I.assign(I.name("a"), I.site(k())), I.ret(), I.expr(I.yld(I.site(k())))], ["a"]),
    "yield_none": lambda k: ([I.expr(I.yld()), I.ret(I.site(k()))], []),
}


def contexts():
    C = {}
    C["top"] = lambda k, body: body
    C["for"] = lambda k, body: [I.for_(I.name("i"), k(), body)]
    C["while"] = lambda k, body: [I.while_(k(), body)]
    C["if"] = lambda k, body: [I.if_(k(), body, [I.assign(I.name("e"), I.site(k()))])]
    C["try"] = lambda k, body: [I.try_(body + [I.raise_(k())], [I.handler("", [I.pass_()])])]
    C["except"] = lambda k, body: [I.try_([I.raise_(k())], [I.handler("", body)])]
    C["finally"] = lambda k, body: [I.try_([I.raise_(k())], [I.handler("", [I.pass_()])], final=body)]
    C["with"] = lambda k, body: [I.with_(k(), "", body)]
    C["loop_else"] = lambda k, body: [I.for_(I.name("i"), k(), [I.pass_()], body)]
    return C


def shows(names):
    return [I.seen(n) for n in names]


def family_f1(quick=True):
    progs = []
    F = forms()
    C = contexts()
    ctxs = ["top", "for", "try", "except"] if quick else list(C)
    pid = 0
    for fname, mk in F.items():
        for cname in ctxs:
            if cname != "top" and fname in ("global", "global_read", "nested_class", "return_mid") and quick:
                continue
            k = K()
            stmts, names = mk(k)
            body = C[cname](k, stmts)
            if fname.startswith("global"):
                # global declarations must come first in the function
                decl = [s for s in stmts if s["s"] == "global"]
                rest = [s for s in stmts if s["s"] != "global"]
                body = decl + C[cname](k, rest)
            shown = shows(names) if cname in ("top", "with", "finally") else []
            body = body + shown + [I.ret(I.site(k()))]
            pid += 1
            progs.append(dict(I.program(f"p{pid}", ["x"], body, pid=pid), form=fname, ctx=cname, family="F1",
                              shadow="abs" if fname == "builtin_call" else ""))
    for fname, mk in GEN_FORMS.items():
        for cname in (["top", "for"] if quick else ["top", "for", "try", "with"]):
            k = K()
            stmts, names = mk(k)
            body = C[cname](k, stmts)
            pid += 1
            progs.append(dict(I.program(f"p{pid}", ["x"], body, pid=pid), form=fname, ctx=cname, family="F1", gen=True))
    # closures and nonlocal
    k = K()
    pid += 1
    progs.append(dict(I.program(f"p{pid}", ["x"], [I.assign(I.name("a"), I.add(I.read("cv"), I.site(k()))), I.ret(I.read("a"))],
                                closure=["cv"], pid=pid), form="closure_read", ctx="top", family="F1"))
    # a function defined in a class body that stores into a private attribute (name mangling), and one whose local carries an
    # annotation that cannot be evaluated (Python never evaluates the annotations of locals)
    k = K()
    pid += 1
    progs.append(dict(I.program(f"p{pid}", ["x"], [I.assign(I.name("o"), I.obj(k())), I.assign(I.attr("o", "__priv"), I.site(k())), I.assign(I.attr("o", "__tail_"), I.site(k())),
                                                  I.assign(I.attr("o", "__dunder__"), I.site(k())), I.ret(I.site(k()))], pid=pid),
                      klass=True, form="private_attr_in_class", ctx="top", family="F1"))
    k = K()
    pid += 1
    progs.append(dict(I.program(f"p{pid}", ["x"], [I.ann("a", "NoSuchName", I.site(k())), I.ann("b", "no.such[thing]", I.site(k())),
                                                  I.ret(I.add(I.read("a"), I.read("b")))], pid=pid),
                      form="unevaluable_annotation", ctx="top", family="F1"))
    # multi-line string literals in an indented definition (the function's source cannot be dedented as text)
    for zero in (False, True):
        k = K()
        pid += 1
        progs.append(dict(I.program(f"p{pid}", ["x"], [I.assign(I.name("a"), I.add(I.mlstr(zero), I.site(k()))), I.ret(I.add(I.read("a"), I.read("cv")))],
                                    closure=["cv"], pid=pid), form="multiline_string" + ("_col0" if zero else ""), ctx="top", family="F1"))
    k = K()
    pid += 1
    progs.append(dict(I.program(f"p{pid}", ["x"], [I.nonlocal_("cv"), I.assign(I.name("cv"), I.site(k())), I.ret(I.read("cv"))],
                                closure=["cv"], pid=pid), form="nonlocal", ctx="top", family="F1"))
    return progs


def family_f6():
    """control-flow nests: loops with try/finally and every kind of exit"""
    progs = []
    pid = 1000

    def add(body, label, gen=False):
        nonlocal pid
        pid += 1
        progs.append(dict(I.program(f"p{pid}", ["x"], body, pid=pid), form=label, ctx="nest", family="F6", gen=gen))
    k = K()
    add([I.for_(I.name("i"), k(), [I.try_([I.if_(k(), [I.brk()]), I.if_(k(), [I.cont()]), I.assign(I.name("a"), I.site(k())),
                                          I.if_(k(), [I.ret(I.site(k()))]), I.raise_(k())], final=[I.assign(I.name("b"), I.site(k()))])],
                [I.assign(I.name("e"), I.site(k()))]),
         I.assign(I.name("c"), I.site(k()))], "P1")
    k = K()
    add([I.try_([I.raise_(k()), I.assign(I.name("a"), I.site(k()))], [I.handler("err", [I.assign(I.name("h"), I.site(k())), I.raise_(k())])],
                final=[I.if_(k(), [I.ret(I.site(k()))])]),
         I.while_(k(), [I.for_(I.name("j"), k(), [I.if_(k(), [I.brk()])]), I.raise_(k())])], "P2")
    k = K()
    add([I.for_(I.name("i"), k(), [I.for_(I.name("j"), k(), [I.assign(I.name("a"), I.site(k())), I.expr(I.call(k(), I.read("a")))])]),
         I.ret(I.site(k()))], "nested_for_straight")
    k = K()
    add([I.for_(I.name("i"), k(), [I.assign(I.name("a"), I.site(k())), I.raise_(k())]), I.assign(I.name("c"), I.site(k()))],
        "for_callee_raises")
    k = K()
    add([I.try_([I.for_(I.name("i"), k(), [I.for_(I.name("j"), k(), [I.expr(I.call(k(), I.site(k())))])])],
                [I.handler("", [I.assign(I.name("h"), I.site(k()))])])], "nested_for_expr_raise")
    k = K()
    add([I.while_(k(), [I.try_([I.assign(I.name("a"), I.site(k())), I.if_(k(), [I.cont()])], final=[I.if_(k(), [I.brk()])])]),
         I.ret(I.read("x"))], "while_try_finally")
    k = K()
    add([I.for_(I.name("i"), k(), [I.with_(k(), "w", [I.if_(k(), [I.brk()]), I.assign(I.name("a"), I.site(k()))])]),
         I.assign(I.name("z"), I.site(k()))], "for_with_break")
    # loop variables whose names share letters with the prefixes of their meta-variables (#loop_n, #endloop_elem, #loop__)
    k = K()
    add([I.for_(I.name("n"), k(), [I.for_(I.name("elem"), k(), [I.assign(I.name("a"), I.site(k())), I.if_(k(), [I.brk()])]),
                                    I.if_(k(), [I.cont()])]),
         I.ret(I.site(k()))], "loopvars_n_elem")
    k = K()
    add([I.for_(I.name("_"), k(), [I.assign(I.name("a"), I.site(k()))]),
         I.for_(I.name("line"), k(), [I.if_(k(), [I.ret(I.site(k()))]), I.raise_(k())]),
         I.assign(I.name("d"), I.site(k()))], "loopvars_underscore_line")
    k = K()
    add([I.assign(I.name("a"), I.site(k())),
         I.with_(k(), "w", [I.raise_(k()), I.ret(I.site(k()))], sup=True)], "trailing_with_swallows")
    k = K()
    add([I.if_(k(), [I.with_(k(), "", [I.raise_(k()), I.ret(I.read("x"))], sup=True)], [I.ret(I.site(k()))])], "if_with_swallows_else_return")
    k = K()
    add([I.try_([I.assign(I.name("a"), I.site(k())), I.ret(I.read("a"))], final=[I.if_(k(), [I.ret(I.site(k()))]), I.assign(I.name("b"), I.site(k()))])],
        "return_superseded_by_finally")
    k = K()
    add([I.for_(I.name("i"), k(), [I.try_([I.ret(I.site(k()))], final=[I.if_(k(), [I.brk()]), I.if_(k(), [I.cont()])])]), I.ret(I.site(k()))],
        "return_cancelled_by_break")
    k = K()
    add([I.while_(k(), [I.for_(I.name("i"), k(), [I.for_(I.name("j"), k(), [I.if_(k(), [I.brk()]), I.raise_(k())]), I.if_(k(), [I.cont()])])]),
         I.assign(I.name("z"), I.site(k()))], "while_for_for")
    k = K()
    add([I.for_(I.name("i"), k(), [I.expr(I.yld(I.read("i"))), I.if_(k(), [I.brk()])]), I.ret(I.site(k()))], "gen_for_break", gen=True)
    k = K()
    add([I.try_([I.expr(I.yld(I.site(k()))), I.expr(I.yld(I.site(k())))], final=[I.assign(I.name("a"), I.site(k()))])],
        "gen_try_finally", gen=True)
    k = K()
    add([I.assign(I.name("a"), I.site(k())), I.expr(I.call(k(), I.yld(I.read("a")))), I.assign(I.name("b"), I.site(k())),
         I.expr(I.call(k(), I.yld(I.read("b"))))], "gen_two_yields", gen=True)
    return progs


def random_program(rng, pid, maxdepth=3):
    k = K()
    names = ["a", "b", "c"]

    def stmt(depth, inloop):
        r = rng.random()
        if r < 0.3:
            return I.assign(I.name(rng.choice(names)), I.site(k()))
        if r < 0.36:
            return I.assign([I.name("a"), I.name("b")], I.site(k()))
        if r < 0.42:
            return I.assign(I.tup(I.name("a"), I.name("b")), I.useq(k()))
        if r < 0.46:
            return I.expr(I.call(k(), I.site(k())))
        if r < 0.5:
            return I.raise_(k())
        if r < 0.58 and depth < maxdepth:
            return I.for_(I.name(rng.choice(["i", "j"])), k(), block(depth + 1, True), block(depth + 1, inloop) if rng.random() < 0.2 else [])
        if r < 0.63 and depth < maxdepth:
            return I.while_(k(), block(depth + 1, True))
        if r < 0.72 and depth < maxdepth:
            return I.if_(k(), block(depth + 1, inloop), block(depth + 1, inloop) if rng.random() < 0.4 else [])
        if r < 0.8 and depth < maxdepth:
            hs = [I.handler(rng.choice(["err", ""]), block(depth + 1, inloop))] if rng.random() < 0.7 else []
            fin = block(depth + 1, inloop) if (rng.random() < 0.5 or not hs) else []
            return I.try_(block(depth + 1, inloop), hs, final=fin)
        if r < 0.84 and depth < maxdepth:
            return I.with_(k(), rng.choice(["w", ""]), block(depth + 1, inloop))
        if r < 0.88 and inloop:
            return rng.choice([I.brk(), I.cont()])
        if r < 0.92:
            return I.ret(I.site(k()) if rng.random() < 0.7 else None)
        if r < 0.96:
            return I.ann(rng.choice(names), "@T", I.site(k()))
        return I.aug(I.name("x"), I.site(k()))

    def block(depth, inloop):
        return [stmt(depth, inloop) for _ in range(rng.randint(1, 3))]

    body = [I.assign(I.name("a"), I.site(k()))] + [stmt(1, False) for _ in range(rng.randint(2, 5))]
    return dict(I.program(f"p{pid}", ["x"], body, pid=pid), form="random", ctx="random", family="RND")


def family_state():
    """functions that keep state between calls in a mutable default argument; called once before and once after they are
    instrumented (C01: what the function remembers must carry over)"""
    progs = []
    k = K()
    body = [I.aug(I.name("m"), I.site(k())), I.assign(I.name("a"), I.site(k())), I.ret(I.read("a"))]
    p = I.program("st8001", ["x", "m"], body, pid=8001)
    progs.append(dict(p, defaults={"m": {"e": "acc", "k": 5}}, precall=True, form="mutable_default", ctx="top", family="FS"))
    k = K()
    body = [I.for_(I.name("i"), k(), [I.aug(I.name("m"), I.read("i"))]), I.ret(I.site(k()))]
    p = I.program("st8002", ["x", "m"], body, pid=8002)
    progs.append(dict(p, defaults={"m": {"e": "acc", "k": 6}}, precall=True, form="mutable_default_loop", ctx="for", family="FS"))
    # a default value taken from a local of the scope the def was executed in, and one whose evaluation is observable: the
    # defaults are evaluated when the def runs, never again
    k = K()
    body = [I.assign(I.name("a"), I.add(I.read("m"), I.site(k()))), I.ret(I.read("a"))]
    p = I.program("st8003", ["x", "m"], body, closure=["cv"], pid=8003)
    progs.append(dict(p, defaults={"m": I.read("cv")}, form="default_from_enclosing_scope", ctx="top", family="FS"))
    k = K()
    body = [I.assign(I.name("a"), I.site(k())), I.ret(I.read("a"))]
    p = I.program("st8004", ["x", "m"], body, pid=8004)
    progs.append(dict(p, defaults={"m": I.call(k())}, form="default_with_side_effect", ctx="top", family="FS"))
    return progs


def family_f16():
    """declared-only variables and conditionally used undefined globals (C16)"""
    progs = []
    pid = 3000

    def add(body, label, decl=None, gen=False):
        nonlocal pid
        pid += 1
        d = dict(decl or {"var": "", "marker": ""})
        d.setdefault("catches", label == "decl_in_try")
        d.setdefault("tag", "")       # tag carried by the declaration ("" = none)
        # what PteraNameError.info()["annotation"] must show for the declaration (a fact about the program text)
        d.setdefault("ann", "" if not d["var"] else "ann:ptera.tag.T" if d["tag"] else "ann:<class 'int'>")
        progs.append(dict(I.program(f"p{pid}", ["x"], body, pid=pid), form=label, ctx="f16", family="F16", decl=d))
    k = K()
    add([I.assign(I.name("a"), I.site(k())), I.expr(I.call(901)), I.ann("d", "int"), I.expr(I.call(902)), I.seen("d"),
         I.ret(I.add(I.read("d"), I.read("a")))], "decl_top", {"var": "d", "marker": "901"})
    k = K()
    add([I.expr(I.call(901)), I.ann("d", "@T"), I.expr(I.call(902)), I.assign(I.name("b"), I.read("d")), I.seen("b"), I.ret(I.read("b"))],
        "decl_tagged", {"var": "d", "marker": "901", "tag": "T"})
    k = K()
    # the same declaration with the tag written as an object (tag.T) instead of a string ("@T")
    add([I.expr(I.call(901)), I.ann("d", "tag.T"), I.expr(I.call(902)), I.assign(I.name("b"), I.read("d")), I.seen("b"), I.ret(I.read("b"))],
        "decl_tagged_obj", {"var": "d", "marker": "901", "tag": "T"})
    k = K()
    # a tagged declaration in a function that has other bindings (tagged differently / untagged) before it
    # declared at three places with three tags (the later ones are never executed): the variable carries all of them
    add([I.expr(I.call(901)), I.ann("d", "@T"), I.expr(I.call(902)), I.assign(I.name("b"), I.read("d")), I.seen("b"), I.ret(I.read("b")),
         I.ann("d", "@U"), I.ann("d", "@V")],
        "decl_three_tags", {"var": "d", "marker": "901", "tag": "T", "ann": "ann:ptera.tag.T & ptera.tag.U & ptera.tag.V"})
    add([I.ann("a", "@U", I.site(k())), I.assign(I.name("c"), I.site(k())), I.expr(I.call(901)), I.ann("d", "@T"), I.expr(I.call(902)), I.seen("d"),
         I.ret(I.add(I.read("d"), I.read("a")))], "decl_tagged_mixed", {"var": "d", "marker": "901", "tag": "T"})
    k = K()
    add([I.for_(I.name("i"), k(), [I.expr(I.call(901)), I.ann("d", "int"), I.expr(I.call(902)), I.seen("d")]), I.ret(I.site(k()))],
        "decl_in_loop", {"var": "d", "marker": "901"})
    k = K()
    add([I.if_(k(), [I.expr(I.call(901)), I.ann("d", "int"), I.expr(I.call(902)), I.seen("d")], [I.assign(I.name("a"), I.site(k()))]),
         I.ret(I.site(k()))], "decl_in_branch", {"var": "d", "marker": "901"})
    k = K()
    add([I.try_([I.expr(I.call(901)), I.ann("d", "int"), I.expr(I.call(902)), I.seen("d")], [I.handler("err", [I.assign(I.name("h"), I.site(k()))], typ="NameError")]),
         I.ret(I.site(k()))], "decl_in_try", {"var": "d", "marker": "901"})
    k = K()
    add([I.expr(I.call(901)), I.ann("d", "int"), I.expr(I.call(902)), I.ann("e", "int"), I.expr(I.call(903)), I.seen("d"), I.seen("e"),
         I.ret(I.add(I.read("d"), I.read("e")))], "decl_two", {"var": "d", "marker": "901", "var2": "e", "marker2": "902"})
    # undefined globals
    k = K()
    add([I.assign(I.name("a"), I.site(k())), I.if_(k(), [I.assign(I.name("b"), I.read("UNDEF_G")), I.seen("b")]), I.ret(I.site(k()))], "undef_cond")
    k = K()
    add([I.assign(I.name("a"), I.site(k())), I.assign(I.name("b"), I.read("UNDEF_G")), I.ret(I.read("b"))], "undef_used")
    k = K()
    add([I.for_(I.name("i"), k(), [I.if_(k(), [I.expr(I.call(k(), I.read("UNDEF_G")))])]), I.ret(I.site(k()))], "undef_in_loop")
    # ... in functions that also have a tagged variable (probed through its tag only)
    k = K()
    add([I.ann("a", "@T", I.site(k())), I.assign(I.name("b"), I.read("UNDEF_G")), I.ret(I.read("b"))], "undef_used_tagged")
    progs[-1]["cat"] = "T"
    k = K()
    add([I.ann("a", "@T", I.site(k())), I.if_(k(), [I.assign(I.name("b"), I.read("UNDEF_G")), I.seen("b")]), I.ret(I.site(k()))], "undef_cond_tagged")
    progs[-1]["cat"] = "T"
    k = K()
    add([I.try_([I.assign(I.name("b"), I.read("UNDEF_G"))], [I.handler("err", [I.assign(I.name("h"), I.site(k()))], typ="NameError")]),
         I.ret(I.site(k()))], "undef_caught")
    return progs
