"""Random well-formed scripts for the scripted world (one top-level call of f)."""


def gen_script(rng, maxlen=30, maxdepth=4, fns="fgh", loops=True, reads=True, aug=True, ann=True,
               p_call=0.28, p_exit=0.2, valmax=None, decl=False):
    out = []
    ctr = [0]

    def nv():
        ctr[0] += 1
        if valmax:
            return rng.randint(0, valmax)
        return ctr[0]

    budget = [maxlen]
    last = {}

    def sstep(last=False):
        if not last and rng.random() < 0.15:
            out.append(["sraise", nv()])
            return False
        out.append(["slast" if last else "sval", nv()])
        return True

    def sbody():
        if not sstep():
            return "raise"
        for _ in range(rng.randint(0, 2)):
            out.append(["iter", nv()])
            if not sstep():
                return "raise"
            for _j in range(rng.randint(0, 2)):
                out.append(["iter", nv()])
                if not sstep():
                    return "raise"
            out.append(["stop", 0])
        out.append(["stop", 0])
        sstep(last=True)
        return "end"

    def ops(depth, bound, inloop):
        """emit ops for one activation (or one loop iteration when inloop); returns how it ended:
        'ret' | 'raise' | 'end' (function) or 'next' | 'brk' | 'cont' (iteration)."""
        while budget[0] > 0:
            budget[0] -= 1
            r = rng.random()
            if r < 0.34:
                v = rng.choice("ab")
                if v in last and rng.random() < 0.12 and not valmax:
                    # re-bound to a value that is EQUAL to the previous one but another object: the same number as a float
                    # (code 400000 + n, see PteraAbs.FloatBase)
                    out.append([f"bind_{v}", 400000 + last[v]])
                else:
                    x = nv()
                    out.append([f"bind_{v}", x])
                    last[v] = x
                bound.add(v)
            elif r < 0.38 and aug and "a" in bound:
                out.append(["aug_a", nv()])
            elif r < 0.43 and ann:
                # c is bound both by an annotated assignment (tag T) and, less often, by a plain one (no tag)
                out.append(["ann_c" if rng.random() < 0.7 else "bind_c", nv()])
                bound.add("c")
            elif r < 0.50 and reads:
                v = rng.choice(sorted(bound))
                out.append([f"read_{v}", 0])
            elif r < 0.50 + p_call and depth < maxdepth and "s" in fns and rng.random() < 0.3:
                # the straight-line function s: values and exceptions come from its callee stepval()
                catch = rng.random() < 0.4
                out.append([("catch_" if catch else "call_") + "s", nv()])
                ended = sbody()
                if ended == "raise" and not catch:
                    return "raise"
            elif r < 0.50 + p_call and depth < maxdepth:
                fn = rng.choice([x for x in fns if x != "s"])
                catch = rng.random() < 0.3
                out.append([("catch_" if catch else "call_") + fn, nv()])
                ended = ops(depth + 1, {"p"}, False)
                if ended == "raise" and not catch:
                    return "raise"
            elif r < 0.85 and loops and not inloop and depth <= maxdepth:
                out.append(["loop", 0])
                n = rng.randint(0, 3)
                done = False
                for _ in range(n):
                    out.append(["iter", nv()])
                    bound.add("i")
                    e = ops(depth, bound, True)
                    if e in ("ret", "raise"):
                        return e
                    if e == "brk":
                        done = True
                        break
                if not done:
                    out.append(["stop", 0])
            elif r < 0.85 + p_exit:
                k = rng.random()
                if inloop and k < 0.5:
                    e = rng.choice(["brk", "cont", "next"])
                    out.append([e, 0])
                    return e
                if k < 0.75:
                    out.append(["ret", nv()])
                    return "ret"
                if k < 0.9:
                    if decl and rng.random() < 0.4:
                        out.append(["decl", 0])          # 'd: int' with nobody supplying d: ptera's name error
                    else:
                        out.append([rng.choice(["raise", "raise", "raiseb"]), nv()])
                    return "raise"
                e = "next" if inloop else "end"
                out.append([e, 0])
                return e
        e = "next" if inloop else "end"
        out.append([e, 0])
        return e

    ops(1, {"p"}, False)
    return out
