"""Xform.tla (M level of the assignment rewrite): model checking and conformance on the shape programs (C01, C02)."""
import json
import random

from . import core, ir as I, progcheck as PC


CFG = ('CONSTANT Mechanism = "{mech}"\nINIT InitX\nNEXT Next\nCONSTRAINT Collect\nINVARIANT LawsOrSignature\nINVARIANT NoOtherDifference\n'
       '{export}POSTCONDITION Report\nCHECK_DEADLOCK FALSE\n')


def model(out, mech="native", export=True):
    """TLC: every statement shape x instrumented set through Py / X; returns (signatures, shapes)"""
    r = core.run_tlc("XformMC", CFG.format(mech=mech, export="INVARIANT Export\n" if export else ""), workers=1, timeout=1800)
    out.add_tlc(f"XformMC[{mech}]", r)
    if r.violated:
        out.judge({"clause": "XformModel"}, {"tlc": r.out[-2500:]})
    sigs = {t[1]: {"stmt": json.loads(t[2]), "instrumented": json.loads(t[3])} for t in r.tagged("SIGNATURE")}
    return sigs, [json.loads(t[1]) for t in r.tagged("SHAPE")]


def programs(shapes, first=7000):
    progs = []
    for i, st in enumerate(shapes):
        p = I.program(f"fx{first + i}", ["x"], [I.assign(I.name("o"), I.obj(9)), st, I.ret(I.const(0))], pid=first + i)
        progs.append(dict(p, form="shape", ctx="fx", family="FX"))
    return progs


def run(out, tier, seed, clauses, variants, nsample, pinned=False):
    rng = random.Random(seed * 7919 + 101)
    sigs, shapes = model(out)
    witnesses = [s["stmt"] for s in sigs.values()]
    if pinned:
        # the rewrite of the pinned tree (unpacking by index) must still show its three difference classes: the laws discriminate
        old, _ = model(out, "index", export=False)
        if sorted(old) != ["StarredTarget", "SubscriptIndexTwice", "UnpackByIndex"]:
            out.drift.append(f"Xform with the pinned mechanism derives {sorted(old)}")
    if nsample and len(shapes) > nsample:
        shapes = rng.sample(shapes, nsample)
    progs = programs(witnesses + shapes)
    opts = {"maxiter": 1, "maxraise": 0, "kinds": ["tuple"], "maxpaths": 2, "seed": seed, "variants": variants, "gen_drive": False,
            "with_prog": True, "npairs": 2}
    work = core.scratch(f"{out.prop.lower()}x-")
    traces = PC.run_jobs(progs, opts, work)
    fails, results = PC.validate(traces, work, spec="TraceXformMech", chunk=80)
    for i, rr in enumerate(results):
        out.add_tlc(f"TraceXformMech[{i}]", rr)
    nruns = sum(len(t["runs"]) for t in traces)
    out.traces += nruns
    by = {t["id"]: t for t in traces}
    seen_cls = set()
    for tid, items in fails.items():
        t = by[tid]
        for tag, rest in items:
            if tag != "FAIL":
                out.judge({"clause": "Incomplete", "family": "FX"}, {"pid": t["pid"]})
                continue
            f = rest[0]
            prog = next(p for p in progs if p["id"] == t["pid"])
            if f["clause"] in ("Drift", "SemDrift"):
                out.drift.append({"clause": f["clause"], "program": I.render(prog).split("\n")[-4:-2], "why": f["a"]})
                continue
            if f["clause"] not in clauses:
                continue
            cls = f["cls"]
            run_ = t["runs"][f["run"] - 1]
            if f["mech"]:
                seen_cls.add(cls)
                sig = {"clause": f["clause"], "a": f["a"] if f["clause"] == "Activation" else "", "family": "FX", "mode": run_["mode"],
                       "tuple_target": "Unpack" in cls, "nonseq_unpack": "Unpack" in cls, "sub_target": "Subscript" in cls,
                       "star_target": "Starred" in cls}
            else:
                sig = {"clause": f["clause"] + ":unpredicted", "family": "FX", "mode": run_["mode"], "class": cls, "a": f["a"]}
            out.judge(sig, {"program": prog, "script": t["script"], "run": run_, "plain": t["plain"], "verdict": f})
    for s in sigs:
        short = {"StarredTarget": "Starred", "UnpackByIndex": "Unpack", "SubscriptIndexTwice": "Subscript"}.get(s, s)
        if not any(short in c for c in seen_cls) and set(clauses) & {"Log", "Activation"}:
            out.drift.append(f"Xform signature {s} did not reproduce in the real rewrite")
    out.extra.update({"xform_signatures": sorted(sigs), "xform_shapes_run": len(progs), "xform_runs": nruns})
    return traces
