"""Regenerate the generated tables of DESIGN.md (fix commits, fixed / open findings, seeded changes) in place.

usage: python -m harness.report        (rewrites the text between the <!-- gen:NAME --> ... <!-- /gen:NAME --> markers)
"""
import glob
import json
import os
import re
import subprocess

VERIF = os.path.dirname(os.path.dirname(os.path.abspath(__file__)))


def commits():
    out = subprocess.run(["git", "-C", os.environ.get("PTERA_SRC", "/repo"), "log", "--reverse", "--format=%h %s"], capture_output=True, text=True).stdout
    return [l for l in out.splitlines() if l.split(" ", 1)[1].startswith("fix:")]


def tables():
    kf = json.load(open(os.path.join(VERIF, "known_findings.json")))["findings"]
    t = {}
    t["commits"] = "\n".join(f"* `{c}`" for c in commits())
    rows = ["| entry | property | commit | what failed |", "|---|---|---|---|"]
    for e in kf:
        if e["status"] == "fixed":
            what = re.sub(r"^fixed: property=\S+ (\S+ )?", "", e["what"]) if e["what"].startswith("fixed:") else e["what"]
            what = what[len(e["commit"]) + 1:] if what.startswith(e["commit"]) else what
            rows.append(f"| {e['id']} | {e['property']} | {e['commit']} | {what} |")
    t["fixed"] = "\n".join(rows)
    rows = ["| id | property | what fails |", "|---|---|---|"]
    for e in kf:
        if e["status"] == "open":
            rows.append(f"| {e['id']} | {e['property']} | {e['what']} |")
    t["open"] = "\n".join(rows)
    rows = ["| seed | what it changes (first line of its README) | caught by | missed at first |", "|---|---|---|---|"]
    n = 0
    for d in sorted(glob.glob(os.path.join(VERIF, "seeded", "*", ""))):
        m = json.load(open(d + "meta.json"))
        first = (m.get("needs") or "").strip().splitlines()[0][:170] if m.get("needs") else ""
        rows.append(f"| {m['id']} | {first} | {', '.join(m.get('caught_by', []))} | {'yes' if m.get('missed_at_first') else ''} |")
        n += 1
    t["seeds"] = "\n".join(rows)
    t["nseeds"] = str(n)
    # the specification modules as they are: file, lines, first sentence of the header comment
    rows = ["| module | lines | what it specifies (head of its comment) |", "|---|---|---|"]
    for f in sorted(glob.glob(os.path.join(VERIF, "specs", "*.tla"))):
        src = open(f).read()
        parts = []
        for line in src.splitlines()[1:]:
            if line.startswith("(*"):
                parts.append(line.strip().strip("(*)").strip())
            elif parts or line.strip():
                break
        head = re.sub(r"\s+", " ", " ".join(parts)).strip().replace("|", "\\|")
        rows.append(f"| `{os.path.basename(f)}` | {len(src.splitlines())} | {head[:230]} |")
    t["specs"] = "\n".join(rows)
    return t


def main():
    path = os.path.join(VERIF, "DESIGN.md")
    s = open(path).read()
    for name, body in tables().items():
        pat = re.compile(rf"(<!-- gen:{name} -->)(.*?)(<!-- /gen:{name} -->)", re.S)
        if not pat.search(s):
            print("marker missing:", name)
            continue
        s = pat.sub(lambda m: m.group(1) + "\n" + body + "\n" + m.group(3), s)
    open(path, "w").write(s)


if __name__ == "__main__":
    main()
