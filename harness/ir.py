"""Statement IR of the skeleton programs, its Python rendering (plain and twin) and static features.

The printer knows nothing about ptera.  The *twin* rendering inserts B('v', v) after every binding site of
a local variable (real Python does the binding, the twin only reports it) - it is the reference for C02.
"""


# ---------------------------------------------------------------- constructors
def name(v): return {"t": "name", "v": v}
def tup(*elts): return {"t": "tuple", "elts": list(elts)}
def star(v): return {"t": "star", "v": v}
def attr(v, a): return {"t": "attr", "v": v, "a": a}
def sub(v, e): return {"t": "sub", "v": v, "e": e}

def site(k): return {"e": "site", "k": k}
def read(v): return {"e": "read", "v": v}
def walrus(v, x): return {"e": "walrus", "v": v, "x": x}
def yld(x=None): return {"e": "yield", "x": x}
def add(l, r): return {"e": "add", "l": l, "r": r}
def useq(k): return {"e": "useq", "k": k}
def obj(k): return {"e": "obj", "k": k}
def headof(v): return {"e": "headof", "v": v}       # v.head : an attribute read with an observable effect
def call(k, *args): return {"e": "call", "k": k, "args": list(args)}
def lam(x): return {"e": "lambda", "x": x}
def comp(v, k, x): return {"e": "comp", "v": v, "k": k, "x": x}
def comp2(v, w, k): return {"e": "comp2", "v": v, "w": w, "k": k}      # [w for v in IT(k) for w in (v, v)]
def callinner(name, k): return {"e": "callinner", "name": name, "k": k}   # name(): a nested def whose body evaluates site k
def const(c): return {"e": "const", "c": c}
def mlstr(zero=False): return {"e": "mlstr", "zero": zero}      # length of a multi-line string literal (its lines are part of the value)

def assign(targets, e): return {"s": "assign", "targets": targets if isinstance(targets, list) else [targets], "e": e}
def aug(t, e): return {"s": "aug", "t": t, "e": e}
def ann(v, tag, e=None): return {"s": "ann", "v": v, "tag": tag, "e": e}
def annattr(v, a): return {"s": "annattr", "v": v, "a": a}          # 'o.p: int' - an annotation without a value stores nothing
def expr(e): return {"s": "expr", "e": e}
def for_(t, k, body, orelse=()): return {"s": "for", "t": t, "k": k, "body": list(body), "orelse": list(orelse)}
def while_(k, body, orelse=()): return {"s": "while", "k": k, "body": list(body), "orelse": list(orelse)}
def if_(k, body, orelse=()): return {"s": "if", "k": k, "body": list(body), "orelse": list(orelse)}
def try_(body, handlers=(), orelse=(), final=()):
    return {"s": "try", "body": list(body), "handlers": [dict(h) for h in handlers], "orelse": list(orelse), "final": list(final)}
def handler(nm, body, typ="ScriptExc"): return {"name": nm, "type": typ, "body": list(body)}
def match_(k1, k2, a, b, body): return {"s": "match", "k1": k1, "k2": k2, "a": a, "b": b, "body": list(body)}   # match (E, E): case (a, b): body
def with_(k, t, body, sup=False): return {"s": "with", "k": k, "t": t, "body": list(body), "sup": sup}   # sup: the manager swallows exceptions
def import_(mod, asname=""): return {"s": "import", "mod": mod, "as": asname}
def from_import(mod, nm, asname=""): return {"s": "from", "mod": mod, "name": nm, "as": asname}
def def_(nm, body): return {"s": "def", "name": nm, "body": list(body)}
def class_(nm, body): return {"s": "class", "name": nm, "body": list(body)}
def ret(e=None): return {"s": "return", "e": e}
def raise_(k): return {"s": "mayraise", "k": k}
def brk(): return {"s": "break"}
def cont(): return {"s": "continue"}
def pass_(): return {"s": "pass"}
def del_(v): return {"s": "del", "v": v}
def global_(v): return {"s": "global", "v": v}
def nonlocal_(v): return {"s": "nonlocal", "v": v}
def seen(v): return {"s": "seen", "v": v}


def program(nm, params, body, closure=(), pid=0):
    """closure: names defined in an enclosing function (the program is then built by a factory)"""
    return {"name": nm, "params": list(params), "body": list(body), "closure": list(closure), "id": pid}


# ---------------------------------------------------------------- printing
def p_expr(e, twin):
    k = e["e"]
    if k == "site":
        return f"E({e['k']})"
    if k == "read":
        return e["v"]
    if k == "walrus":
        inner = f"({e['v']} := {p_expr(e['x'], twin)})"
        return f"BX('{e['v']}', {inner})" if twin else inner
    if k == "yield":
        return "(yield)" if e["x"] is None else f"(yield {p_expr(e['x'], twin)})"
    if k == "add":
        return f"({p_expr(e['l'], twin)} + {p_expr(e['r'], twin)})"
    if k == "useq":
        return f"U({e['k']})"
    if k == "obj":
        return f"O({e['k']})"
    if k == "callinner":
        return f"{e['name']}()"
    if k == "headof":
        return f"{e['v']}.head"
    if k == "call":
        return f"F({e['k']}" + "".join(", " + p_expr(a, twin) for a in e["args"]) + ")"
    if k == "lambda":
        return f"(lambda: {p_expr(e['x'], twin)})()"
    if k == "comp":
        return f"[{p_expr(e['x'], twin)} for {e['v']} in IT({e['k']})]"
    if k == "comp2":
        # two for-clauses: the second iterable reads the first clause's loop variable (a name of the comprehension's own scope)
        return f"[{e['w']} for {e['v']} in IT({e['k']}) for {e['w']} in ({e['v']}, {e['v']})]"
    if k == "mlstr":
        # the continuation lines are what they are, wherever the statement stands: eight blanks, then none (zero) or twelve
        return 'len("""first\n        second\n' + ("" if e["zero"] else "            ") + 'third""")'
    if k == "const":
        return repr(e["c"])
    if k == "acc":
        return f"A({e['k']})"
    if k == "bcall":
        return f"{e['fn']}({p_expr(e['x'], twin)})"
    if k == "tupd":
        return "(" + ", ".join(p_expr(x, twin) for x in e["elts"]) + ",)"
    raise ValueError(k)


def p_target(t, twin):
    k = t["t"]
    if k == "name":
        return t["v"]
    if k == "tuple":
        inner = ", ".join(p_target(x, twin) for x in t["elts"])
        return f"({inner},)" if len(t["elts"]) == 1 else f"({inner})"
    if k == "star":
        return "*" + t["v"]
    if k == "attr":
        return f"{t['v']}.{t['a']}"
    if k == "sub":
        return f"{t['v']}[{p_expr(t['e'], twin)}]"
    raise ValueError(k)


def ls_shape(targets):
    """nesting of the value a shape program assigns: what its (first) tuple target takes apart; 0 = a leaf.
    A starred element stands for two leaves."""
    def sh(t):
        if t["t"] != "tuple":
            return 0
        out = []
        for x in t["elts"]:
            out.extend([0, 0] if x["t"] == "star" else [sh(x)])
        return out
    tups = [t for t in targets if t["t"] == "tuple"]
    return sh(tups[0]) if tups else 0


def target_names(t):
    k = t["t"]
    if k in ("name", "star"):
        return [t["v"]]
    if k == "tuple":
        return [n for x in t["elts"] for n in target_names(x)]
    return []


def binds(names, ind):
    return [f"{ind}B('{n}', {n})" for n in names]


def p_block(stmts, ind, twin):
    out = []
    for s in stmts:
        out.extend(p_stmt(s, ind, twin))
    if not out:
        out.append(ind + "pass")
    return out


def p_stmt(s, ind, twin):
    k = s["s"]
    nxt = ind + "    "
    if k == "assign":
        lhs = " = ".join(p_target(t, twin) for t in s["targets"])
        rhs = f"LS({s['e']['k']}, {ls_shape(s['targets'])!r})" if s["e"]["e"] == "ls" else p_expr(s["e"], twin)
        out = [f"{ind}{lhs} = {rhs}"]
        if twin:
            for t in s["targets"]:
                out += binds(target_names(t), ind)
        return out
    if k == "aug":
        out = [f"{ind}{p_target(s['t'], twin)} += {p_expr(s['e'], twin)}"]
        if twin:
            out += binds(target_names(s["t"]), ind)
        return out
    if k == "ann":
        if s["e"] is None:
            return [f"{ind}{s['v']}: {s['tag']!r}"] if s["tag"].startswith("@") else [f"{ind}{s['v']}: {s['tag']}"]
        tag = repr(s["tag"]) if s["tag"].startswith("@") else s["tag"]
        out = [f"{ind}{s['v']}: {tag} = {p_expr(s['e'], twin)}"]
        if twin:
            out += binds([s["v"]], ind)
        return out
    if k == "annattr":
        return [f"{ind}{s['v']}.{s['a']}: int"]
    if k == "expr":
        return [f"{ind}{p_expr(s['e'], twin)}"]
    if k == "for":
        out = [f"{ind}for {p_target(s['t'], twin)} in IT({s['k']}):"]
        body = (binds(target_names(s["t"]), nxt) if twin else []) + p_block(s["body"], nxt, twin)
        out += body
        if s["orelse"]:
            out += [f"{ind}else:"] + p_block(s["orelse"], nxt, twin)
        return out
    if k == "while":
        out = [f"{ind}while C({s['k']}):"] + p_block(s["body"], nxt, twin)
        if s["orelse"]:
            out += [f"{ind}else:"] + p_block(s["orelse"], nxt, twin)
        return out
    if k == "if":
        cond = p_expr(s["cx"], twin) if "cx" in s else f"C({s['k']})"
        out = [f"{ind}if {cond}:"] + p_block(s["body"], nxt, twin)
        if s["orelse"]:
            out += [f"{ind}else:"] + p_block(s["orelse"], nxt, twin)
        return out
    if k == "try":
        out = [f"{ind}try:"] + p_block(s["body"], nxt, twin)
        for h in s["handlers"]:
            head = f"{ind}except {h['type']}" if h["type"] else f"{ind}except"
            if h["name"]:
                head += f" as {h['name']}"
            out += [head + ":"]
            out += (binds([h["name"]], nxt) if twin and h["name"] else []) + p_block(h["body"], nxt, twin)
        if s["orelse"]:
            out += [f"{ind}else:"] + p_block(s["orelse"], nxt, twin)
        if s["final"]:
            out += [f"{ind}finally:"] + p_block(s["final"], nxt, twin)
        return out
    if k == "match":
        return [f"{ind}match (E({s['k1']}), E({s['k2']})):", f"{nxt}case ({s['a']}, {s['b']}):"] \
            + (binds([s["a"], s["b"]], nxt + "    ") if twin else []) + p_block(s["body"], nxt + "    ", twin) \
            + [f"{nxt}case _:", f"{nxt}    pass"]
    if k == "with":
        head = f"{ind}with {'SCM' if s.get('sup') else 'CM'}({s['k']})" + (f" as {s['t']}" if s["t"] else "") + ":"
        return [head] + (binds([s["t"]], nxt) if twin and s["t"] else []) + p_block(s["body"], nxt, twin)
    if k == "import":
        nm = s["as"] or s["mod"].split(".")[0]
        out = [f"{ind}import {s['mod']}" + (f" as {s['as']}" if s["as"] else "")]
        return out + (binds([nm], ind) if twin else [])
    if k == "from":
        nm = s["as"] or s["name"]
        out = [f"{ind}from {s['mod']} import {s['name']}" + (f" as {s['as']}" if s["as"] else "")]
        return out + (binds([nm], ind) if twin else [])
    if k == "def":
        return [f"{ind}def {s['name']}():"] + p_block(s["body"], nxt, False)
    if k == "class":
        return [f"{ind}class {s['name']}:"] + p_block(s["body"], nxt, False)
    if k == "return":
        return [f"{ind}return" + ("" if s["e"] is None else " " + p_expr(s["e"], twin))]
    if k == "mayraise":
        return [f"{ind}R({s['k']})"]
    if k in ("break", "continue", "pass"):
        return [ind + k]
    if k == "del":
        return [f"{ind}del {s['v']}"]
    if k == "global":
        return [f"{ind}global {s['v']}"]
    if k == "nonlocal":
        return [f"{ind}nonlocal {s['v']}"]
    if k == "seen":
        return [f"{ind}SEEN('{s['v']}', {s['v']})"]
    raise ValueError(k)


HEADER = "from harness.worlds.rt2 import E, C, R, IT, U, O, CM, SCM, F, B, SEEN, A, LS, ScriptExc\nfrom ptera import tag\n" \
         "def BX(name, value):\n    B(name, value)\n    return value\n"


def render(prog, twin=False):
    """Python source of a module defining the program's function (module-level or built by a factory)."""
    defaults = prog.get("defaults") or {}
    params = ", ".join(n + (f"={p_expr(defaults[n], False)}" if n in defaults else "") for n in prog["params"])
    ind = "    " if prog["closure"] or prog.get("klass") else ""
    lines = []
    if prog.get("klass"):
        # defined in a class body (a static method): private names (__x) are mangled with the class name
        lines.append(f"class K{prog['name']}_:")
        lines.append("    @staticmethod")
    if prog["closure"]:
        lines.append(f"def make_{prog['name']}():")
        for i, c in enumerate(prog["closure"]):
            lines.append(f"    {c} = {700 + i}")
    lines.append(f"{ind}def {prog['name']}({params}):")
    body_ind = ind + "    "
    stmts = list(prog["body"])
    head = []
    if twin:
        # leading nonlocal declarations come first in the twin, each followed by the report of the value the variable
        # has at entry (ptera reports the closure variables a function uses before its parameters)
        while stmts and stmts[0]["s"] == "nonlocal":
            st = stmts.pop(0)
            head += [f"{body_ind}nonlocal {st['v']}"] + binds([st["v"]], body_ind)
    body = head + (binds(prog["params"], body_ind) if twin else []) + p_block(stmts, body_ind, twin)
    lines += body
    if prog["closure"]:
        lines.append(f"    return {prog['name']}")
        lines.append(f"{prog['name']} = make_{prog['name']}()")
    if prog.get("klass"):
        lines.append(f"{prog['name']} = K{prog['name']}_.{prog['name']}")
    return HEADER + "\n".join(lines) + "\n"


# ---------------------------------------------------------------- static features
def walk(stmts):
    for s in stmts:
        yield s
        for key in ("body", "orelse", "final"):
            if key in s and isinstance(s[key], list):
                yield from walk(s[key])
        for h in s.get("handlers", []):
            yield from walk(h["body"])


def exprs_of(s):
    out = []

    def rec(e):
        if not isinstance(e, dict) or "e" not in e:
            return
        out.append(e)
        for key in ("x", "l", "r"):
            if isinstance(e.get(key), dict):
                rec(e[key])
        for a in e.get("args", []) + e.get("elts", []):
            rec(a)
    if isinstance(s.get("e"), dict):
        rec(s["e"])
    if isinstance(s.get("cx"), dict):
        rec(s["cx"])
    for t in s.get("targets", []) + ([s["t"]] if isinstance(s.get("t"), dict) else []):
        def rt(t):
            if t["t"] == "sub":
                rec(t["e"])
            for x in t.get("elts", []):
                rt(x)
        rt(t)
    return out


def features(prog):
    f = set()
    for s in walk(prog["body"]):
        f.add("stmt:" + s["s"])
        for t in s.get("targets", []) + ([s["t"]] if isinstance(s.get("t"), dict) else []):
            def rt(t, depth=0):
                f.add("target:" + t["t"] + (":nested" if depth and t["t"] == "tuple" else ""))
                for x in t.get("elts", []):
                    rt(x, depth + 1)
            rt(t)
        if s["s"] == "assign" and len(s["targets"]) > 1:
            f.add("chained")
        if s["s"] == "ann" and s["e"] is None:
            f.add("declared-only")
        for e in exprs_of(s):
            f.add("expr:" + e["e"])
            if s["s"] in ("assign", "ann", "aug") and e["e"] in ("yield", "walrus"):
                f.add("rhs:" + e["e"])
    if prog["closure"]:
        f.add("closure")
    return sorted(f)


def local_names(prog):
    """names bound by the function's own body (params included), in first-occurrence order"""
    names = list(prog["params"])

    def addn(n):
        if n not in names:
            names.append(n)
    for s in walk(prog["body"]):
        for t in s.get("targets", []) + ([s["t"]] if isinstance(s.get("t"), dict) else []):
            for n in target_names(t):
                addn(n)
        if s["s"] == "ann":
            addn(s["v"])
        if s["s"] == "with" and s["t"]:
            addn(s["t"])
        if s["s"] == "match":
            addn(s["a"])
            addn(s["b"])
        if s["s"] == "import":
            addn(s["as"] or s["mod"].split(".")[0])
        if s["s"] == "from":
            addn(s["as"] or s["name"])
        for h in s.get("handlers", []):
            if h["name"]:
                addn(h["name"])
        for e in exprs_of(s):
            if e["e"] == "walrus":
                addn(e["v"])
    return names
