"""Script runtime of the scripted worlds.

World functions are small interpreters of a script (list of [op, arg]).  Every helper appends the
*environment event* to LOG before the statement that consumes it executes, so the log order is:
environment intent -> ptera deliveries caused by it -> next intent.
"""

SCRIPT = []
POS = [0]
LOG = []
CUR = [None]
LAST = [None]

TRUE_CODE = 100001
NONE_CODE = 100002
EXC_BASE = 200000
EXT_BASE = 300000
OTHER_CODE = 999999
ABSENT_CODE = 999998
EXT_NAMES = []          # filled by the driver: sorted list of external names used by the world


class ScriptBase(BaseException):
    """what the world's try blocks catch"""


class ScriptErr(ScriptBase, Exception):
    pass


class ScriptHard(ScriptBase):
    """not an Exception subclass (like KeyboardInterrupt / GeneratorExit)"""


class BadScript(RuntimeError):
    pass


def reset(script):
    SCRIPT[:] = [list(x) for x in script]
    POS[0] = 0
    LOG.clear()
    CUR[0] = None
    LAST[0] = None


def more():
    if POS[0] >= len(SCRIPT):
        raise BadScript("script exhausted")
    op = SCRIPT[POS[0]]
    if op[0] in ("end", "next"):
        POS[0] += 1
        LAST[0] = op[0]
        LOG.append(("env", op[0], 0))
        return False
    return True


def is_(name):
    op = SCRIPT[POS[0]]
    if op[0] == name:
        CUR[0] = op
        LAST[0] = name
        POS[0] += 1
        LOG.append(("env", name, op[1]))
        return True
    return False


def was(name):
    return LAST[0] == name


def val():
    return dec(CUR[0][1])


def dec(v):
    if 400000 <= v < 500000:
        return float(v - 400000)        # script values are codes: FloatBase + n is the float n.0
    if 300000 < v < 400000:
        return 300000 - v               # NegBase + n is the integer -n
    return v


def exc():
    if CUR[0][0] == "raiseb":
        return ScriptHard(CUR[0][1])
    return ScriptErr(CUR[0][1])


def stepval():
    """value-producing callee of the straight-line function s: ('sval', v) returns v, ('sraise', v) raises"""
    if POS[0] >= len(SCRIPT):
        raise BadScript("script exhausted in stepval")
    op = SCRIPT[POS[0]]
    POS[0] += 1
    CUR[0] = op
    LAST[0] = op[0]
    LOG.append(("env", op[0], op[1]))
    if op[0] in ("sval", "slast"):
        return op[1]
    if op[0] == "sraise":
        raise ScriptErr(op[1])
    raise BadScript(f"stepval at {op}")


def sitems(name):
    """iterator of the straight-line function: the loop statement itself is an environment event"""
    LOG.append(("env", "sloop_" + name, 0))
    return _Iter()


def items():
    return _Iter()


class _Iter:
    """Iterator over script-provided items: each __next__ consumes an ('iter', v) or ('stop', 0) op."""

    def __iter__(self):
        return self

    def __next__(self):
        if POS[0] >= len(SCRIPT):
            raise BadScript("script exhausted in iterator")
        op = SCRIPT[POS[0]]
        if op[0] == "iter":
            POS[0] += 1
            LAST[0] = "iter"
            LOG.append(("env", "iter", op[1]))
            return dec(op[1])
        if op[0] == "stop":
            POS[0] += 1
            LAST[0] = "stop"
            LOG.append(("env", "stop", 0))
            raise StopIteration
        raise BadScript(f"iterator asked at {op}")


def res(v):
    LOG.append(("env", "result", enc(v)))
    return v


def caught():
    LOG.append(("env", "caught", 0))


def seen(v):
    LOG.append(("env", "seen", enc(v)))


def recv(v):
    LOG.append(("env", "recv", enc(v)))


def bad():
    raise BadScript(f"bad op {SCRIPT[POS[0]]} at {POS[0]}")


def enc(v):
    """Encode a runtime value as an integer (TLC compares only like with like)."""
    from ptera.utils import ABSENT

    if v is True:
        return TRUE_CODE
    if v is None:
        return NONE_CODE
    if v is ABSENT:
        return ABSENT_CODE
    if isinstance(v, bool):
        return OTHER_CODE
    if isinstance(v, int) and 0 <= v < 100000:
        return v
    if isinstance(v, int) and -100000 < v < 0:
        return 300000 - v              # NegBase of PteraAbs.tla
    if isinstance(v, float) and v == int(v) and 0 <= v < 100000:
        return 400000 + int(v)         # FloatBase of PteraAbs.tla
    if isinstance(v, ScriptBase):
        return EXC_BASE + v.args[0]
    name = getattr(v, "__name__", None)
    if name in EXT_NAMES:
        return EXT_BASE + EXT_NAMES.index(name)
    return OTHER_CODE
