"""Function placements that have an absolute reference string (C14)."""
import functools


def logged(fn):
    @functools.wraps(fn)
    def wrapper(*args, **kwargs):
        return fn(*args, **kwargs)
    return wrapper


def top(x):
    v = x + 1
    return v


class Outer:
    def meth(self, x):
        v = x + 2
        return v

    class Inner:
        def meth(self, x):
            v = x + 3
            return v


def make():
    k = 4

    def inner(x):          # a real closure (free variable k): ptera rebuilds it through a factory function
        v = x + k
        return v
    return inner


made = make()


@logged
def deco(x):
    v = x + 5
    return v


def way(x):
    return top(x)


# module-level namesakes of Outer.meth / Outer.Inner.meth and of make.<locals>.inner: plain functions that merely share
# a name with a probed method or closure must keep their own absolute reference
def meth(x):
    v = x + 20
    return v


def inner(x):
    v = x + 40
    return v


class Box:
    class Lid:
        def open(self, x):
            return top(x)


def make2():
    """a function two function scopes deep (its qualified name has two <locals> parts)"""
    def mid():
        def deep(x):
            v = x + 6
            return v
        return deep
    return mid()


deep2 = make2()
