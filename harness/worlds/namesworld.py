"""Functions with names bound / read in every kind of place (C10). Never called; only activated."""
import math
from math import sqrt as root

GLOB = 5
OTHER = 6


def plain(p, q=1, *rest, k=2, **kw):
    a = p + q
    b: int = a
    return a + b + GLOB + len(rest) + k


def blocks(items):
    total = 0
    for idx, (key, val) in enumerate(items):
        total += val
        while total > 100:
            shrink = total // 2
            total = shrink
    else:
        after_loop = 1
    try:
        risky = 1 // total
    except ZeroDivisionError as err:
        handled = str(err)
    else:
        no_error = risky
    finally:
        cleanup = 0
    with open(__file__) as fh:
        first = fh.readline()
    if (walr := total) > 3:
        inner_if = walr
    return total


def scopes(n):
    import os.path
    from math import pi as PI
    squares = [sq * sq for sq in range(n)]
    helper = lambda lam_arg: lam_arg + n

    def inner(inner_arg):
        inner_local = inner_arg + n
        return inner_local

    class Local:
        attr = 1
    del squares
    return inner(helper(n)) + math.floor(PI) + OTHER + root(4)


def recur(n):
    if n <= 0:
        return 0
    return recur(n - 1) + 1


def make_closure():
    captured = 10
    counter = 0

    def closure_fn(x):
        y = x + captured
        return y
    return closure_fn


closure_fn = make_closure()


def only_except(v):
    try:
        return 1 // v
    except ZeroDivisionError:
        in_handler = 7
        return in_handler


def declared(v):
    must_supply: int
    return v


class Holder:
    def method(self, arg):
        local_m = arg
        return local_m

    @staticmethod
    def static(arg):
        s_local = arg
        return s_local


async def coro(x):
    y = x
    return y


lam = lambda z: z + 1


def genfn(n):
    for i in range(n):
        got = yield i
    return n
