"""Functions with names bound / read in every kind of place (C10). Never called; only activated."""
import math
from math import sqrt as root

GLOB = 5
OTHER = 6


def plain(p, q=1, *rest, k=2, **kw):
    a = p + q
    b: int = a
    return a + b + GLOB + len(rest) + k


def blocks(items):
    total = 0
    for idx, (key, val) in enumerate(items):
        total += val
        while total > 100:
            shrink = total // 2
            total = shrink
    else:
        after_loop = 1
    try:
        risky = 1 // total
    except ZeroDivisionError as err:
        handled = str(err)
    else:
        no_error = risky
    finally:
        cleanup = 0
    with open(__file__) as fh:
        first = fh.readline()
    if (walr := total) > 3:
        inner_if = walr
    return total


def scopes(n):
    import os.path
    from math import pi as PI
    squares = [sq * sq for sq in range(n)]
    helper = lambda lam_arg: lam_arg + n

    def inner(inner_arg):
        inner_local = inner_arg + n
        return inner_local

    class Local:
        attr = 1
    del squares
    return inner(helper(n)) + math.floor(PI) + OTHER + root(4)


def recur(n):
    if n <= 0:
        return 0
    return recur(n - 1) + 1


def make_closure():
    captured = 10
    counter = 0

    def closure_fn(x):
        y = x + captured
        return y
    return closure_fn


closure_fn = make_closure()


def only_except(v):
    try:
        return 1 // v
    except ZeroDivisionError:
        in_handler = 7
        return in_handler


def declared(v):
    must_supply: int
    return v


class Holder:
    def method(self, arg):
        local_m = arg
        return local_m

    @staticmethod
    def static(arg):
        s_local = arg
        return s_local


async def coro(x):
    y = x
    return y


lam = lambda z: z + 1


def genfn(n):
    for i in range(n):
        got = yield i
    return n


# ---- identifiers that collide with other kinds of names
def total(xs):
    total = 0                 # a local named like the function itself
    for x in xs:
        total += x
    return total


def report(n):
    def fmt(v):
        return v
    fmt = n                   # the name of a nested def, rebound by a plain assignment
    len = n                   # a local that shadows a builtin
    math = len                # a local that shadows a module global
    GLOB = math
    match = GLOB              # soft keywords are ordinary identifiers
    type = match
    _ = type
    __dunder__ = _
    ünï = __dunder__          # non-ASCII identifier
    return fmt


# ---- annotations on locals are never evaluated by Python: whatever evaluating them would do must not matter
import collections
import typing


def annotated(k, w: "not a type" = 0):
    buf: collections.Deque[int] = k             # evaluating raises AttributeError
    found: typing.Optional[int, None] = None    # evaluating raises TypeError
    late: NotDefinedAnywhere = 1                # evaluating raises NameError
    div: (1 // 0) = 2                           # evaluating raises ZeroDivisionError
    text: "some string" = 3
    return buf, found, late, div, text, sum


def reassigned(p, q=2):
    """a parameter that is assigned again stays a parameter; a declared global that is assigned stays a global"""
    global GLOB
    p = p + q
    GLOB = p
    return p


def make_counter():
    count = 0

    def counter(step):
        """a closure variable assigned through nonlocal stays a closure variable"""
        nonlocal count
        count = count + step
        return count
    return counter


counter = make_counter()


def matcher(cmd):
    """capture patterns bind locals"""
    match cmd:
        case [first, *others]:
            return first
        case {"key": found, **remaining}:
            return found
        case str() as text:
            return text
    return None


def nested_comp(rows):
    """an assignment expression in the inner comprehension of a nested comprehension binds in the function (PEP 572)"""
    flat = [[(last := cell) for cell in row] for row in rows]
    {key: [(seen_only := cell) for cell in row] for key, row in enumerate(rows)}
    return last, flat


def make_scaled():
    Factor = int
    unit = 1

    def scale(v):
        """a closure variable that only occurs in the annotation of a local, next to one that is read"""
        out: Factor = v * 2
        return out + unit
    return scale


scale = make_scaled()
