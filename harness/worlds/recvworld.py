"""Receiver populations for method selectors (C13)."""
import functools


def logged(fn):
    @functools.wraps(fn)
    def wrapper(*args, **kwargs):
        return fn(*args, **kwargs)
    return wrapper


BASE = 6


class K:
    def __init__(self, key):
        self.key = key

    def glob(self, x):
        v = x + BASE            # reads a module global
        return v

    def meth(self, x):
        v = x + 1
        return v

    def other(this, x):          # receiver parameter not called self
        v = x + 2
        return v

    @logged
    def deco(self, x):
        v = x + 3
        return v

    @logged
    @logged
    def deco2(self, x):          # two wraps-style decorators on top of each other
        v = x + 7
        return v

    def tree(self, x):
        """calls itself on other instances (self.kids) BEFORE binding v: the receivers of the inner calls must not be
        confused with the receiver of the outer one"""
        for kid in getattr(self, "kids", ()):
            kid.tree(x)
        v = x + 5
        return v

    @property
    @logged
    def prop2(self):             # a property whose getter is itself decorated
        v = self.key + 8
        return v

    def store(self, x):          # stores into an attribute of the receiver before binding v
        self.last = x
        v = x + 9
        return v

    @property
    def prop(self):
        v = self.key + 4
        return v

    def __call__(self, x):       # a special method written in Python: selected through an instance it is a method like any other
        v = x + 11
        return v


class Sub(K):
    """an empty container: its instances are falsy"""

    def __len__(self):
        return 0


class E(K):
    """value equality, hashable"""

    def __eq__(self, other):
        return type(other) is type(self) and other.key == self.key

    def __hash__(self):
        return hash(self.key)


class U(K):
    """value equality, not hashable"""

    def __eq__(self, other):
        return type(other) is type(self) and other.key == self.key

    __hash__ = None


class Holder:
    def __init__(self, obj):
        self.obj = obj


def meth(x):
    """a plain function sharing the method's name"""
    v = x + 100
    return v


def poll(o, x, which="meth"):
    """a caller: method selectors may be the inner step of a call path (poll > obj.meth > v)"""
    tick = x
    return getattr(o, which)(tick)
