"""Script runtime of the skeleton programs.

Every data-dependent decision of a generated program is delegated to a helper that consumes the next
*decision* of the script and logs an observable event.  When the script is exhausted the helper raises
NeedDecision so that the path explorer can branch.  Script values are rebuilt freshly for every run.
"""

SCRIPT = []
POS = [0]
LOG = []
GLOBALS = {}          # module globals a program may touch (reset between runs, final values observable)


class NeedDecision(BaseException):
    def __init__(self, kind, site):
        self.kind = kind
        self.site = site


class BadScript(RuntimeError):
    pass


class ScriptExc(Exception):
    def __init__(self, k):
        super().__init__(k)
        self.k = k


PENDING = [None]


def reset(script):
    SCRIPT[:] = [list(d) for d in script]
    POS[0] = 0
    LOG.clear()
    PENDING[0] = None


def _take(kind, site):
    if PENDING[0] is not None:
        # a finally block running while the first request propagates must not ask for another decision
        raise NeedDecision(*PENDING[0])
    if POS[0] >= len(SCRIPT):
        PENDING[0] = (kind, site)
        raise NeedDecision(kind, site)
    d = SCRIPT[POS[0]]
    if d[0] != kind or d[1] != site:
        raise BadScript(f"decision {d} does not fit request {kind}@{site} at {POS[0]}")
    POS[0] += 1
    return d


class _EqAll(int):
    """a number whose == answers True to everything (symbolic-expression style objects, mock.ANY)"""

    def __eq__(self, other):
        return True

    def __ne__(self, other):
        return False

    __hash__ = int.__hash__


class _EqRaise(int):
    """a number whose == has no truth value (array style objects)"""

    def __eq__(self, other):
        raise ValueError("the truth value of this comparison is ambiguous")

    __ne__ = __eq__
    __hash__ = int.__hash__


def _exotic(token):
    _, kind, base = token.split(":")
    n = int(base)
    if kind == "eqall":
        return _EqAll(n)
    if kind == "eqraise":
        return _EqRaise(n)
    if kind == "float":
        return float(n)
    if kind == "true":
        return True
    raise BadScript(token)


def E(k):
    """opaque expression site: ['E', k, value, raises]; value: an int, or 'x:<kind>:<n>' for an unusual object"""
    d = _take("E", k)
    if d[3]:
        LOG.append(["raise", k])
        raise ScriptExc(k)
    LOG.append(["eval", k, d[2]])
    return _exotic(d[2]) if isinstance(d[2], str) else d[2]


def C(k):
    d = _take("C", k)
    LOG.append(["cond", k, 1 if d[2] else 0])
    return bool(d[2])


def R(k):
    """statement that may raise: ['R', k, raises]"""
    d = _take("R", k)
    if d[2]:
        LOG.append(["raise", k])
        raise ScriptExc(k)
    LOG.append(["pass", k])


class _It:
    def __init__(self, k):
        self.k = k

    def __iter__(self):
        return self

    def __next__(self):
        d = _take("N", self.k)          # ['N', k, 'stop'|'val'|'raise', value]
        if d[2] == "stop":
            LOG.append(["stop", self.k])
            raise StopIteration
        if d[2] == "raise":
            LOG.append(["raise", self.k])
            raise ScriptExc(self.k)
        LOG.append(["next", self.k, d[3]])
        return _tuplify(d[3])


def _tuplify(v):
    """iteration values for tuple loop targets come as nested lists in the script"""
    return tuple(_tuplify(x) for x in v) if isinstance(v, list) else v


def IT(k):
    LOG.append(["iter", k])
    return _It(k)


class _Obj:
    """object whose attribute / item stores are observable side effects"""

    def __init__(self, k):
        object.__setattr__(self, "_k", k)

    def __setattr__(self, name, value):
        LOG.append(["setattr", self._k, name, enc(value)])
        object.__setattr__(self, name, value)

    def __setitem__(self, key, value):
        LOG.append(["setitem", self._k, enc(key), enc(value)])

    def __getitem__(self, key):
        LOG.append(["getitem", self._k, enc(key)])
        return 0

    @property
    def head(self):
        """reading it is observable and gives another value every time (a cursor that allocates a slot)"""
        n = getattr(self, "_n", 0)
        object.__setattr__(self, "_n", n + 1)
        LOG.append(["head", self._k, n])
        return n


class _Acc:
    """accumulator whose in-place addition differs observably from plain addition"""

    def __init__(self, k, items=()):
        self.k = k
        self.items = list(items)

    def __iadd__(self, other):
        LOG.append(["iadd", self.k, enc(other), len(self.items)])      # how much it holds already is observable
        self.items.append(other)
        return self

    def __add__(self, other):
        LOG.append(["add", self.k, enc(other)])
        return _Acc(self.k, self.items + [other])


def A(k):
    LOG.append(["acc", k])
    return _Acc(k)


def SHADOW(v):
    """what a module installs over a builtin between two calls"""
    LOG.append(["shadow", enc(v)])
    return -1


def O(k):
    LOG.append(["obj", k])
    return _Obj(k)


class _CM:
    def __init__(self, k, v, sup=False):
        self.k = k
        self.v = v
        self.sup = sup

    def __enter__(self):
        LOG.append(["cm_enter", self.k])
        return self.v

    def __exit__(self, typ, exc, tb):
        LOG.append(["cm_exit", self.k, 0 if typ is None else 1])
        return self.sup and typ is not None and issubclass(typ, Exception)


def CM(k):
    d = _take("E", k)
    LOG.append(["eval", k, d[2]])
    return _CM(k, d[2])


def SCM(k):
    """a context manager that swallows the exceptions raised in its block (contextlib.suppress)"""
    d = _take("E", k)
    LOG.append(["eval", k, d[2]])
    return _CM(k, d[2], sup=True)


def F(k, *args):
    """observable call with arguments"""
    LOG.append(["call", k, enc(list(args))])
    return None


KINDS = ["tuple", "list", "gen", "dict", "set", "str", "iter", "short", "long", "noniter"]


def U(k):
    """sequence value at an unpacking site: ['U', k, kind, n] -> n fresh values base..base+n-1"""
    d = _take("U", k)
    kind, n, base = d[2], d[3], d[4]
    vals = [base + i for i in range(n)]
    LOG.append(["useq", k, kind, n])
    if kind == "tuple":
        return tuple(vals)
    if kind == "list":
        return list(vals)
    if kind == "short":
        return list(vals[:-1])
    if kind == "long":
        return list(vals) + [base + n]
    if kind == "gen":
        return (v for v in vals)
    if kind == "iter":
        return iter(list(vals))
    if kind == "dict":
        return {v: 0 for v in vals}
    if kind == "set":
        return set(vals[:1]) if n == 1 else _OrderedSet(vals)
    if kind == "str":
        return "".join(chr(97 + (v % 26)) for v in vals)
    if kind == "noniter":
        return base
    raise BadScript(kind)


class _OrderedSet(set):
    """a set with deterministic iteration order (insertion), still not indexable"""

    def __init__(self, vals):
        super().__init__(vals)
        self._vals = list(vals)

    def __iter__(self):
        return iter(self._vals)


class _LS:
    """value of a shape program (Xform.tla): a sequence that reports HOW it is taken apart - by iteration
    (Python's unpacking) or by indexing (ptera's rewrite) - and whose elements are named by their path"""

    def __init__(self, path, shape):
        self.path = path
        self.elts = [(_LS(f"{path}.{i}", sh) if isinstance(sh, list) else _Leaf(f"{path}.{i}")) for i, sh in enumerate(shape)]

    def __iter__(self):
        LOG.append(["siter", self.path])
        return iter(list(self.elts))

    def __getitem__(self, i):
        LOG.append(["sgetitem", self.path, i])
        return self.elts[i]

    def __len__(self):
        return len(self.elts)


class _Leaf:
    def __init__(self, path):
        self.path = path


def LS(k, shape):
    LOG.append(["eval", k, "ls"])
    return _LS(str(k), shape) if isinstance(shape, list) else _Leaf(str(k))


def B(name, value):
    """twin only: a binding of `name` just happened"""
    LOG.append(["bind", name, enc(value)])


def SEEN(name, value):
    LOG.append(["seen", name, enc(value)])
    return value


def enc(v):
    """values as strings (TLC compares only like with like)"""
    from ptera.utils import ABSENT

    if v is ABSENT:
        return "ABSENT"
    if isinstance(v, _EqAll):
        return "eqall:" + str(int(v))
    if isinstance(v, _EqRaise):
        return "eqraise:" + str(int(v))
    if isinstance(v, float):
        return "float:" + repr(v)
    if v is None:
        return "None"
    if v is True:
        return "True"
    if v is False:
        return "False"
    if isinstance(v, int):
        return str(v)
    if isinstance(v, str):
        return "s:" + v
    if isinstance(v, ScriptExc):
        return f"exc:{v.k}"
    if isinstance(v, BaseException):
        return "error:" + type(v).__name__
    if isinstance(v, _Obj):
        return f"obj:{v._k}"
    if isinstance(v, _Acc):
        return f"acc:{v.k}"        # identity only: the object is mutable, streams hold it by reference
    if isinstance(v, (_LS, _Leaf)):
        return "v:" + v.path
    if isinstance(v, list) and v and all(isinstance(x, (_LS, _Leaf)) for x in v):
        return "rest"                  # what a starred target received
    if isinstance(v, (tuple, list)):
        return "[" + ",".join(enc(x) for x in v) + "]"
    if isinstance(v, type):
        return "class:" + v.__name__
    if callable(v):
        return "fn:" + getattr(v, "__name__", "?")
    return "other:" + type(v).__name__
