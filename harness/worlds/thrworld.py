"""Shared function for the thread schedules (C08); loaded afresh for every run."""


def f(x):
    a = x + 1
    b = a * 2
    c: "@W" = b + 1
    d: int                      # only declared: a plain declaration unless somebody probes d
    return b
