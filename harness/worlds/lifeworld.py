"""Plain functions for the life-cycle histories (C05, C09, C17): no script, fixed arithmetic."""


def f(x):
    a = x + 1
    b = a * 2
    c: "@T" = x          # annotated binding, then a plain re-binding of the same variable
    c = c + 1
    r = g(b)
    return r


def g(y):
    a = y + 100
    return a


def gen(n):
    """instrumented generator: yields n values, calling g for each"""
    for k in range(n):
        a = g(k)
        yield a
    return n


def drive(run):
    """the instrumented function the driver's own code may be running in (C09: selectors of the caller's enclosing
    functions keep matching): `run` executes the inner part of a history - calls of g, generator operations"""
    r = run()
    return r


def outer(run):
    """an instrumented caller whose own variable changes while generators it started are suspended (C09: what a path selector
    reports of the caller is the caller's state at the time of each step)"""
    run(0)              # before stage is assigned for the first time
    stage = 1
    run(1)
    stage = 2
    run(2)
    stage = 3
    run(3)
    return stage


def top(run):
    """one more level above outer (call paths of three levels)"""
    r = outer(run)
    return r


def mk(k):
    """two function objects made by one def share one code object (closures of a factory, wrappers of a decorator)"""
    def h(z):
        a = z + k
        return a
    return h


h1 = mk(1000)
h2 = mk(2000)


def relay(n):
    """a generator that iterates directly over another instrumented generator, in the header of its for statement (C09:
    closing or dropping it ends the inner generator first, then itself)"""
    for v in gen(n):
        yield v
    return n
