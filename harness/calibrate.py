"""Development tool (not a registered check): apply a catalogued one-line mutation of ptera to a scratch
copy outside /repo and /verif (selected with PTERA_SRC), run the named checks against it, remove the copy.

usage: python -m harness.calibrate [--tests] [--tier quick] NAME...   |   --list
"""
import argparse
import os
import shutil
import subprocess
import sys
import tempfile

VERIF = os.path.dirname(os.path.dirname(os.path.abspath(__file__)))

# name: (file, old, new, [properties expected to flag it])
MUTANTS = {
    "drop-keep-nonimmediate": ("ptera/overlay.py",
        "                next_selectors.append((selector, acc))\n            cachekey",
        "                pass\n            cachekey", ["C03"]),
    "keep-only-unmatched": ("ptera/overlay.py",
        "            if capmap is not False:\n                # A \"template\"",
        "            if capmap is not False:\n                next_selectors.pop()\n                # A \"template\"", ["C03"]),
    "no-fork-focus": ("ptera/overlay.py",
        "                if selector.focus or is_template:", "                if is_template:", ["C03"]),
    "immediate-accum": ("ptera/interpret.py",
        "        cap = self.getcap(element)\n        cap.set(varname, value)\n        return self\n",
        "        cap = self.getcap(element)\n        cap.accum(varname, value)\n        return self\n", ["C03", "C02"]),
    "build-child-first": ("ptera/interpret.py",
        "        while curr:\n            rval.update(curr.captures)\n            curr = curr.parent",
        "        while curr:\n            rval = {**curr.captures, **rval}\n            curr = curr.parent", ["C03"]),
    "intercept-keep-capture": ("ptera/interpret.py",
        "        del self.captures[element.capture]\n", "", ["C04"]),
    "intercept-first-wins": ("ptera/interpret.py",
        "                if tmp is not ABSENT:\n                    rval = tmp",
        "                if tmp is not ABSENT and rval is ABSENT:\n                    rval = tmp", ["C04"]),
    "trigger-before-log": ("ptera/interpret.py",
        "            wfr.log(value)\n            wfr.trigger()", "            wfr.trigger()\n            wfr.log(value)", ["C02", "C03"]),
    "match-tag-all": ("ptera/tags.py",
        "return any(cat == to_match for cat in tg.members)", "return all(cat == to_match for cat in tg.members)", ["C11"]),
    "range-gte": ("ptera/tools.py",
        "if self.end is not None and value >= self.end:", "if self.end is not None and value > self.end:", ["C12"]),
    "total-close-any": ("ptera/interpret.py",
        "                if set(args) == leaf.names:", "                if set(args):", ["C07"]),
    "exit-before-reset": ("ptera/overlay.py",
        "        HandlerCollection.current.reset(self.reset)\n        self.interactor.exit()",
        "        self.interactor.exit()\n        HandlerCollection.current.reset(self.reset)", ["C07", "C05"]),
    "as-priority": ("ptera/selector.py", '"as": opparse.rassoc(350)', '"as": opparse.rassoc(250)', ["C15", "C18"]),
    "skip-apply-in-pop": ("ptera/transform.py",
        "        super().pop(captures)\n        self._apply(self.target)", "        super().pop(captures)", ["C05"]),
}


def main():
    ap = argparse.ArgumentParser()
    ap.add_argument("names", nargs="*")
    ap.add_argument("--list", action="store_true")
    ap.add_argument("--tests", action="store_true", help="also run the repository test suite on the mutant")
    ap.add_argument("--tier", default="quick")
    ap.add_argument("--props", default=None, help="comma list overriding the catalogue's properties")
    a = ap.parse_args()
    if a.list:
        for k, v in MUTANTS.items():
            print(k, v[3])
        return
    for name in a.names or list(MUTANTS):
        file, old, new, props = MUTANTS[name]
        if a.props:
            props = a.props.split(",")
        d = tempfile.mkdtemp(prefix="ptmut-")
        try:
            shutil.copytree("/repo/ptera", os.path.join(d, "ptera"))
            shutil.copytree("/repo/tests", os.path.join(d, "tests"))
            for f in ("pyproject.toml",):
                shutil.copy(os.path.join("/repo", f), d)
            p = os.path.join(d, file)
            src = open(p).read()
            if src.count(old) != 1:
                print(f"{name}: pattern occurs {src.count(old)} times - SKIP")
                continue
            open(p, "w").write(src.replace(old, new))
            line = f"{name}:"
            if a.tests:
                r = subprocess.run(["/venv/bin/python", "-m", "pytest", "-q", "-x", "-p", "no:cacheprovider", "tests"],
                                   cwd=d, env={**os.environ, "PYTHONPATH": d}, capture_output=True, text=True)
                tail = r.stdout.strip().splitlines()[-1] if r.stdout.strip() else ""
                line += f" tests[{tail}]"
            for prop in props:
                r = subprocess.run([os.path.join(VERIF, "bin", "check"), prop, "--tier", a.tier],
                                   env={**os.environ, "PTERA_SRC": d, "VERIF_NO_EVIDENCE": "1"}, capture_output=True, text=True)
                viol = [ln for ln in r.stdout.splitlines() if ln.startswith("VIOLATION")]
                line += f" {prop}:rc={r.returncode},viol={len(viol)}"
                if r.returncode == 2:
                    line += " ERR:" + r.stderr.strip().splitlines()[-1][:200]
            print(line, flush=True)
        finally:
            shutil.rmtree(d, ignore_errors=True)


if __name__ == "__main__":
    main()
