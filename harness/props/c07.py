"""C07 - total probes emit one complete record per outermost call."""
from .. import scripts, sel as S, worldcheck as W, worldprops as P

PLAN = {"quick": [("overlay", 200), ("probe", 100), ("api", 60)],
        "thorough": [("overlay", 4000), ("probe", 1500), ("api", 800)]}


def gen_case(rng, cid, mode):
    sc = scripts.gen_script(rng, maxlen=rng.randint(5, 45), maxdepth=5, p_call=0.4, reads=False,
                            fns=rng.choice(["fgh", "fg", "fh", "f"]), decl=(mode != "probe"))
    fns = P.script_fns(sc)
    hs = []
    for _ in range(3):
        s = S.strip_focus(S.gen_sel(rng, fns=fns, names=("a", "b", "p", "c", "i", "d"), maxdepth=rng.choice([1, 2, 3])))
        hs.append(W.norm_handler({"kind": "tot", "sel": s}))
    if mode != "api":
        # focused selectors forced to total mode: one record per binding of the focus variable
        for _ in range(2):
            s = S.gen_sel(rng, fns=fns, names=("a", "b", "p", "c", "i"), maxdepth=rng.choice([1, 2, 2, 3]))
            hs.append(W.norm_handler({"kind": "tot", "sel": s, "ptype": "total"}))
    return {"id": cid, "script": sc, "arg": 0, "handlers": hs}


def run_mech(out, tier, seed):
    """PteraMech |= PteraAbs for the catalogue selectors of this kind; every TLC history replayed in the real code"""
    from .. import core, mechcheck as M
    cases, sigs = M.explore(out, "tot", 6 if tier == "quick" else 8, 4)
    for sid, w in sigs.items():
        # a model-level disagreement between mechanism and A level: judged through its replay below; recorded here
        out.extra.setdefault("mech_signatures", {})[str(sid)] = w
    if not cases:
        return
    for i, c in enumerate(cases):
        c["id"] = 10_000_000 + i
    work = core.scratch("c07m-")
    n = (len(cases) + 11) // 12
    batches = [("overlay", cases[i:i + n]) for i in range(0, len(cases), n)]
    traces = W.run_cases(batches, work, par=12)
    fails, results = W.validate(traces, work)
    for i, r in enumerate(results):
        out.add_tlc(f"TracePtera[mech-replay {i}]", r)
    out.traces += len(traces)
    by = {c["id"]: c for c in cases}
    W.judge(out, traces, fails, lambda tid: {"mode": "overlay", **by[tid]})
    replay_failed = {by[t]["sid"] for t in fails}
    for sid in sigs:
        if sid not in replay_failed:
            out.drift.append(f"PteraMech signature for selector {sid} did not reproduce in the real code")
    out.extra["mech_histories_replayed"] = len(cases)


def run(out, tier, seed):
    run_mech(out, tier, seed)
    P.run_world(out, tier, seed, gen_case, PLAN, salt=7,
                rule="random call trees (recursive and repeated outermost calls, empty loops, raising calls) x 4 focus-free "
                     "selectors each; Total handlers in BaseOverlay, probing(raw=True) and Overlay.register(all=True, "
                     "immediate=False); one record per ended outermost call that bound every capture, none otherwise",
                sample_filter=lambda t: sum(len(e["dlv"]) for e in t["events"]) > 1)


replay = P.replay_world
