"""C07 - total probes emit one complete record per outermost call."""
from .. import scripts, sel as S, worldcheck as W, worldprops as P

PLAN = {"quick": [("overlay", 200), ("probe", 100), ("api", 60)],
        "thorough": [("overlay", 4000), ("probe", 1500), ("api", 800)]}


def gen_case(rng, cid, mode):
    sc = scripts.gen_script(rng, maxlen=rng.randint(5, 45), maxdepth=5, p_call=0.4, reads=False,
                            fns=rng.choice(["fgh", "fg", "fh", "f"]))
    fns = P.script_fns(sc)
    hs = []
    for _ in range(4):
        s = S.strip_focus(S.gen_sel(rng, fns=fns, names=("a", "b", "p", "c", "i"), maxdepth=rng.choice([1, 2, 3])))
        hs.append(W.norm_handler({"kind": "tot", "sel": s}))
    return {"id": cid, "script": sc, "arg": 0, "handlers": hs}


def run(out, tier, seed):
    P.run_world(out, tier, seed, gen_case, PLAN, salt=7,
                rule="random call trees (recursive and repeated outermost calls, empty loops, raising calls) x 4 focus-free "
                     "selectors each; Total handlers in BaseOverlay, probing(raw=True) and Overlay.register(all=True, "
                     "immediate=False); one record per ended outermost call that bound every capture, none otherwise",
                sample_filter=lambda t: sum(len(e["dlv"]) for e in t["events"]) > 1)


replay = P.replay_world
