"""C18 - malformed selectors are rejected with a syntax or selector error."""
import json

from .. import core, parsecheck as PC


def run(out, tier, seed):
    work = core.scratch("c18-")
    sigs = {}
    if tier == "quick":
        sigs.update(PC.model_check(out, 4, PC.CORE, "ParserMC[len<=4,13 kinds]"))
        sigs.update(PC.model_check(out, 3, PC.FULL, "ParserMC[len<=3,22 kinds]"))
    else:
        sigs.update(PC.model_check(out, 6, PC.CORE[:10], "ParserMC[len<=6,10 kinds]"))
        sigs.update(PC.model_check(out, 4, PC.FULL, "ParserMC[len<=4,22 kinds]"))
    witnesses = [PC.witness_text(w) for w in sigs.values()]
    cases = PC.run_cases(tier, seed, work, witnesses)
    fails = PC.validate(out, cases, work)
    by = {c["id"]: c for c in cases}
    seen_real = set()
    for cid, clause, detail in fails:
        c = by[cid]
        if clause == "Drift" or clause == "DriftLexer":
            out.drift.append({"case": c.get("text", c.get("ltext")), "clause": clause})
            continue
        if clause in ("Internal",):
            seen_real.add(detail)
            out.judge({"clause": "Internal", "why": detail}, {"text": c["text"], "tokens": c["toks"], "outcome": c["out"]})
        elif clause in ("NotRefused", "WronglyRefused", "InternalAtSelect", "RefusalNotStable"):
            out.judge({"clause": clause, "why": detail if clause == "InternalAtSelect" else c["what"]}, {"selector": c["text"], "outcome": c["outcome"], "what": c["what"]})
        elif clause == "NearMissAccepted":
            # a malformed text accepted because a similar well-formed one was compiled before
            out.judge({"clause": "NotRefused", "why": "near-miss"}, {"selector": detail, "after": c["ltext"], "outcome": c["rout"]})
    for s in sigs:
        if s not in seen_real:
            out.drift.append(f"model signature {s} did not reproduce in the real parser")
    out.traces += sum(1 for c in cases if c["kind"] in ("parse", "select"))
    out.extra.update({"strings": sum(1 for c in cases if c["kind"] == "parse"),
                      "exhaustive_strings": sum(1 for c in cases if c.get("src") == "exhaustive"),
                      "model_signatures": sorted(sigs), "activation_cases": sum(1 for c in cases if c["kind"] == "select"),
                      "rule": "TLC: every token string up to the length bound through the parser transcription (internal-error "
                              "signatures with shortest witnesses, loop measure decreasing); real parse() on every string over the "
                              "22-symbol alphabet up to 3 (quick) / 4 (thorough) tokens, grammar-derived and mutated selectors, "
                              "random strings and all witnesses, each judged by TLC (model agreement + admissible error class); "
                              "select()/probing() refusals for the malformed-selector kinds of the property"})
    out.samples.append({"text": cases[5]["text"], "tokens": cases[5]["toks"], "outcome": cases[5]["out"]})
    out.samples.append({"witnesses": {s: PC.witness_text(w) for s, w in sigs.items()}})


def replay(out, path):
    case = json.load(open(path))["case"]
    work = core.scratch("c18r-")
    text = case.get("text") or case.get("selector")
    cases = PC.run_cases("quick", 0, work, [text])
    cases = [c for c in cases if c.get("src") == "witness" or c["kind"] == "select"]
    fails = PC.validate(out, cases, work)
    by = {c["id"]: c for c in cases}
    for cid, clause, detail in fails:
        if clause == "Internal":
            out.judge({"clause": "Internal", "why": detail}, {"text": by[cid]["text"]})
        elif clause in ("NotRefused", "WronglyRefused", "InternalAtSelect", "RefusalNotStable"):
            out.judge({"clause": clause, "why": detail if clause == "InternalAtSelect" else by[cid]["what"]}, {"selector": by[cid]["text"]})
    out.traces += len(cases)
    out.samples.append({"replayed": path})
