"""C04 - overriding a focus variable is equivalent to substituting the assigned value."""
from .. import scripts, sel as S, worldcheck as W, worldprops as P

PLAN = {"quick": [("overlay", 200), ("probe", 120), ("api", 80)],
        "thorough": [("overlay", 4000), ("probe", 2000), ("api", 1200)]}
VARS = ["a", "b", "p", "i", "c", "#value"]


def focused_on(rng, fns, var, conds=False):
    """selector with a short path whose focus variable is var"""
    s = S.gen_sel(rng, fns=fns, names=("a", "b", "p"), maxdepth=rng.choice([1, 1, 2, 3]), conds=conds, values=range(0, 60))
    F = s
    while True:
        nxt = [k for k in F["kids"] if S.has_focus(k)]
        if not nxt:
            break
        F = nxt[0]
    for c in F["caps"]:
        if c["tag"] == 1:
            c["name"] = var
            c["cat"] = ""
            if var == "#value":
                # the stock predicates compare with numbers: not meaningful for a completion that returns None
                c["cond"] = dict(S.NOCOND)
    return s


def gen_ovr(rng, s):
    keys = sorted(S.all_keys(s))
    k = rng.choice(["const", "const", "addkey", "iflt", "samefloat"])
    if k == "samefloat":
        return {"k": "samefloat"}
    if k == "const":
        return {"k": "const", "c": rng.randint(500, 999)}
    if k == "addkey":
        return {"k": "addkey", "key": rng.choice(keys), "n": 1000}
    return {"k": "iflt", "n": rng.randint(5, 30), "c": rng.randint(500, 999), "pipe": rng.random() < 0.5}


def gen_case(rng, cid, mode):
    sc = scripts.gen_script(rng, maxlen=rng.randint(5, 40), maxdepth=4, p_call=0.3, reads=True,
                            fns=rng.choice(["fg", "f", "fgh"]))
    fns = P.script_fns(sc)
    var = rng.choice(VARS + ["c"] * 3)
    hs = []
    order = rng.sample(["ovr", "obs", "ovr2", "obs2"], rng.randint(2, 4))
    if "ovr" not in order:
        order[0] = "ovr"
    for role in order:
        v = var if rng.random() < 0.8 else rng.choice(VARS)
        s = focused_on(rng, fns, v, conds=(rng.random() < 0.3))
        if role.startswith("ovr"):
            o = gen_ovr(rng, s)
            h = {"kind": "imm", "sel": s, "ovr": o}
            if mode == "api" and o["k"] == "const":
                h["silent"] = True
            hs.append(W.norm_handler(h))
        else:
            # an observer that looks at the same variable through its tag only (c:@T next to an override of c): which bindings
            # are instrumented must be the union of what the active probes need
            twin = [P.qualified(h["sel"]) for h in hs if h.get("ovr")] if rng.random() < 0.5 else []
            twin = [q for q in twin if q is not None]
            h = W.norm_handler({"kind": "imm", "sel": rng.choice(twin) if twin else s})
            hs.insert(rng.randrange(len(hs) + 1) if twin else len(hs), h)      # activated before or after the override
    if var in ("c", "p"):
        sc = P.plain_next_to_annotated(rng, sc)
    if var == "c" and rng.random() < 0.4:
        # the override itself is addressed through the tag: it applies to the tagged bindings of c and to no other
        for h in hs:
            if h["ovr"]["k"] != "none":
                q = P.qualified(h["sel"])
                if q is not None:
                    h["sel"] = q
    if mode == "probe" and var == "c" and rng.random() < 0.5:
        # the pair alone: an override of c and, activated after it, an observer of the tagged bindings of c in the same function
        o = next(h for h in hs if h["ovr"]["k"] != "none")
        q = P.qualified(o["sel"])
        if q is not None:
            hs = [o, W.norm_handler({"kind": "imm", "sel": q})]
    if mode == "api":
        # Overlay.tweak takes one {selector: value} dict: the constant overrides are installed together, after the others
        consts = [h for h in hs if h["ovr"]["k"] == "const"]
        seen, uniq = set(), []
        for h in consts:
            key = S.sel_str(h["sel"])
            if key not in seen:
                seen.add(key)
                uniq.append(h)
        hs = [h for h in hs if h["ovr"]["k"] != "const"] + uniq
    if mode == "api" and rng.random() < 0.25:
        # one overlay entered, another override of the same variable entered inside it, then a fork of the first one entered
        # again innermost: three constant overrides in activation order, the first and the third being the same rule
        import copy
        v = var if var != "#value" else "a"
        sA = focused_on(rng, fns, v)
        sB = focused_on(rng, fns, v)
        hA = W.norm_handler({"kind": "imm", "sel": sA, "ovr": {"k": "const", "c": rng.randint(500, 599)}, "silent": True})
        hB = W.norm_handler({"kind": "imm", "sel": sB, "ovr": {"k": "const", "c": rng.randint(600, 699)}, "silent": True})
        return {"id": cid, "script": sc, "arg": rng.randint(0, 40), "handlers": [hA, hB, copy.deepcopy(hA)], "reenter": True}
    case = {"id": cid, "script": sc, "arg": rng.randint(0, 40), "handlers": hs}
    if mode == "api" and rng.random() < 0.5:
        case["forkpre"] = True
    return case


def run_model(out):
    """M level of the override rule (IcptMech.tla): the tree's fold conforms to the A level for every handler list; the two
    tempting variants do not (the rule discriminates)"""
    from .. import core
    cfg = 'SPECIFICATION Spec\nCONSTANTS MaxH = 3 Values = {{0, 2, 5}} Rule = "{rule}"\nINVARIANT Conforms\nCHECK_DEADLOCK FALSE\n'
    r = core.run_tlc("IcptMech", cfg.format(rule="keep-last-answer"), workers=2, timeout=600)
    out.add_tlc("IcptMech[keep-last-answer]", r)
    if r.violated:
        out.judge({"clause": "OverrideRuleModel", "var": "", "why": "model"}, {"tlc": r.out[-2000:]})
    for rule in ("last-handler", "chain"):
        rr = core.run_tlc("IcptMech", cfg.format(rule=rule), workers=2, timeout=600)
        out.add_tlc(f"IcptMech[{rule}]", rr)
        if not rr.violated:
            out.drift.append(f"IcptMech: the variant '{rule}' of the override rule is not rejected")


def run(out, tier, seed):
    run_model(out)
    P.run_world(out, tier, seed, gen_case, PLAN, salt=11,
                rule="random call trees with reads/results x 2-4 handlers in random nesting order on the same variable: "
                     "overriding (constant / function of captured context / conditional on the tentative value) and "
                     "observing; binding forms parameter, plain, augmented, annotated, loop target, return value; mechanisms "
                     "Immediate(intercept), OverridableProbe.override, Overlay.tweak/rewrite; stored value, later reads, "
                     "results and observers' events compared with the substitution semantics of PteraAbs",
                sample_filter=lambda t: sum(len(e["dlv"]) for e in t["events"]) > 2)


replay = P.replay_world
