"""C09 - a suspended generator does not leak its call-path context to its caller."""
import json
import os
import random

from .. import core, lifecheck as L


def cfg(maxops, gens, ovls=("o1", "o2"), drive=False):
    g = ", ".join(f'"{x}"' for x in gens)
    o = ", ".join(f'"{x}"' for x in ovls)
    return (f"INIT InitX\nNEXT Next\nCONSTANTS MaxOps = {maxops}  UseGens = {{{g}}}  UseOvls = {{{o}}}  "
            f"UseDrive = {'TRUE' if drive else 'FALSE'}\nCONSTRAINT Collect\nPOSTCONDITION Report\nCHECK_DEADLOCK FALSE\n")


def random_history(rng, n):
    ops = []
    open_ = []
    ost = {"o1": "new", "o2": "new", "o3": "new"}
    gst = {"g1": "none", "g2": "none"}
    drive = "no" if rng.random() < 0.4 else "todo"        # todo -> in -> done
    dlen = 0
    for k in range(n):
        r = rng.random()
        if drive == "todo" and rng.random() < 0.25:
            ops.append(["drive", ""])
            drive, dlen = "in", len(open_)
            continue
        if drive == "in" and len(open_) == dlen and rng.random() < 0.12:
            ops.append(["undrive", ""])
            drive = "done"
            continue
        if r < 0.15:
            cand = [o for o in ost if ost[o] == "new" and not (o == "o3" and drive == "in")]
            if cand:
                o = rng.choice(cand)
                ops.append(["enter", o])
                ost[o] = "open"
                open_.append(o)
                continue
        if r < 0.25 and open_ and not (drive == "in" and len(open_) <= dlen):
            o = open_.pop()
            ops.append(["exit", o])
            ost[o] = "closed"
            continue
        if r < 0.35:
            cand = [g for g in gst if gst[g] == "none"]
            if cand:
                g = rng.choice(cand)
                ops.append(["new", g])
                gst[g] = "new"
                continue
        live = [g for g in gst if gst[g] in ("new", "s")]
        if r < 0.65 and live:
            g = rng.choice(live)
            ops.append(["next", g])
            gst[g] = "s"
            continue
        if r < 0.75 and live:
            g = rng.choice(live)
            ops.append([rng.choice(["close", "drop"]), g])
            gst[g] = "done"
            continue
        ops.append(["callg", k + 1])
    return ops


def judge(out, cases, traces, fails):
    by = {c["id"]: c for c in cases}
    for tid, items in fails.items():
        c = by[tid]
        for tag, rest in items:
            if tag != "FAIL":
                out.judge({"clause": "Incomplete"}, {"case": c})
                continue
            f = rest[0]
            started = any(op[0] == "next" for op in c["ops"][:f["line"]])
            out.judge({"clause": f["clause"], "mech": f["mech"], "generator_started_before": started},
                      {"case": c, "verdict": f})


def run_relay(out, tier, work):
    """generators nested in one another, ended from outside in every way (TraceRelay.tla)"""
    top = 3 if tier == "quick" else 5
    cases = [{"id": len(cs_) + 0, "n": n, "steps": k, "end": e} for cs_ in [[]] for n in range(0, top + 1) for k in range(0, top + 2)
             for e in ("close", "drop", "exhaust")]
    for i, c in enumerate(cases):
        c["id"] = i + 1
    cin, cout = os.path.join(work, "relay_in.json"), os.path.join(work, "relay_out.json")
    json.dump(cases, open(cin, "w"))
    core.run_driver("harness.drivers.relay_driver", [cin, cout])
    r = core.run_tlc("TraceRelay", "TraceRelay.cfg", env={"TRACE_FILE": cout}, workers=1, timeout=600)
    out.add_tlc("TraceRelay", r)
    res = {c["id"]: c for c in json.load(open(cout))}
    for tup in r.tagged("FAIL"):
        out.judge({"clause": "Relay:" + tup[2], "end": res[tup[1]]["end"]}, {"case": res[tup[1]], "at": tup[3]})
    out.traces += len(cases)
    out.extra["relay_histories"] = len(cases)


def run(out, tier, seed):
    rng = random.Random(seed * 7919 + 37)
    work = core.scratch("c09-")
    run_relay(out, tier, work)
    plans = [(6, ["g1"], ("o1", "o2"), False), (6, ["g1"], ("o1", "o3"), True)] if tier == "quick" else \
        [(7, ["g1"], ("o1", "o2"), False), (7, ["g1", "g2"], ("o1", "o2"), False), (7, ["g1"], ("o1", "o2", "o3"), True)]
    cases = []
    sigs_all = {}
    for maxops, gens, ovls, drive in plans:
        r = core.run_tlc("GenMC", cfg(maxops, gens, ovls, drive), workers=1, timeout=1800)
        out.add_tlc(f"GenMC[{maxops},{len(gens)} generators,{'+'.join(ovls)}{',drive' if drive else ''}]", r)
        for t in r.tagged("SIGNATURE"):
            sigs_all.setdefault(t[1], t[2])
        for t in r.tagged("HIST"):
            cases.append({"id": len(cases), "src": "tlc-exhaustive", "ops": [list(x) for x in t[1]]})
    cap = 2000 if tier == "quick" else 40000
    if len(cases) > cap:
        # the exhaustive set of the larger bound is replayed by sampling (TLC itself has checked all of it on the model)
        out.extra["histories_enumerated"] = len(cases)
        cases = rng.sample(cases, cap)
        for i, c in enumerate(cases):
            c["id"] = i
    for s, w in sigs_all.items():
        cases.append({"id": len(cases), "src": "witness:" + s, "ops": [list(x) for x in w]})
    nrand = 300 if tier == "quick" else 6000
    for _ in range(nrand):
        cases.append({"id": len(cases), "src": "random", "ops": random_history(rng, rng.randint(5, 22))})
    # every history with BaseOverlay/Immediate handlers; a third of them also with probing() objects entered and left by hand,
    # a fifth with blocks forked from one Overlay instance (Overlay.tapping)
    for c in list(cases):
        c["mode"] = "overlay"
        if c["src"] != "tlc-exhaustive" or rng.random() < 0.34:
            cases.append(dict(c, id=len(cases), mode="probe"))
        if c["src"] != "tlc-exhaustive" or rng.random() < 0.2:
            cases.append(dict(c, id=len(cases), mode="api"))
        if c["src"] != "tlc-exhaustive" or rng.random() < 0.2:
            cases.append(dict(c, id=len(cases), mode="ovprobe"))
    for c in cases:
        if c["mode"] in ("probe", "ovprobe") and rng.random() < 0.33:
            c["genexit"] = True
    run_staged(out, tier, seed, rng, work)
    traces = L.run_histories(cases, work, driver="harness.drivers.gen_driver")
    fails, results = L.validate(traces, work, spec="TraceGen")
    for i, r in enumerate(results):
        out.add_tlc(f"TraceGen[{i}]", r)
    out.traces += len(traces)
    judge(out, cases, traces, fails)
    srcfail = {c["src"] for c in cases if c["id"] in fails}
    for s in sigs_all:
        if "witness:" + s not in srcfail:
            out.drift.append(f"signature {s} predicted by GenMech did not reproduce")
    out.extra.update({"histories_exhaustive": sum(1 for c in cases if c["src"] == "tlc-exhaustive"), "histories_random": nrand,
                      "model_signatures": sorted(sigs_all),
                      "rule": "all histories of <= N operations {enter/leave overlay (with-blocks), create generator, next, close, "
                              "drop, call g from the driver} enumerated by TLC on the token model (GenMech) and replayed with real "
                              "generators (drop = del + gc.collect()); events per overlay and HandlerCollection.current after each "
                              "step validated against the A level by TraceGen"})
    out.samples.append({"ops": cases[0]["ops"]})
    out.samples.append({"witnesses": sigs_all})


def run_staged(out, tier, seed, rng, work):
    """the caller's side (TraceStaged.tla): every non-decreasing assignment of stages to up to N steps of one or two generators"""
    import itertools
    import os
    cases = []
    nmax = 4 if tier == "quick" else 6
    for n in range(1, nmax + 1):
        for stages in itertools.combinations_with_replacement([0, 1, 2, 3], n):
            for gens in ([[1] * n] + ([[rng.choice([1, 2]) for _ in range(n)]] if n > 1 else [])):
                steps = [[s, g] for s, g in zip(stages, gens)]
                cases.append({"form": "capture", "k": 0, "stages": steps})
                cases.append({"form": "cond", "k": rng.choice([1, 2, 3]), "stages": steps})
    for mode in ("probe", "overlay"):
        cs = [dict(c, id=i, mode=mode, deep=(i % 3 == 0)) for i, c in enumerate(cases)]
        cin, cout = os.path.join(work, f"sg-{mode}.json"), os.path.join(work, f"st-{mode}.json")
        json.dump(cs, open(cin, "w"))
        core.run_driver("harness.drivers.staged_driver", [cin, cout])
        res = {c["id"]: c for c in json.load(open(cout))}
        r = core.run_tlc("TraceStaged", "TraceStaged.cfg", env={"TRACE_FILE": cout}, workers=2, timeout=600)
        out.add_tlc(f"TraceStaged[{mode}]", r)
        for t in r.tagged("FAIL"):
            c = res[t[1]]
            out.judge({"clause": t[2], "generator_started_before": False, "mech": False}, {"case": c, "events": c["events"]})
        out.traces += len(cs)
    out.extra["staged_cases"] = 2 * len(cases)


def replay(out, path):
    case = json.load(open(path))["case"]["case"]
    work = core.scratch("c09r-")
    if "trace" in case and "end" in case:
        # a nested-generator history (TraceRelay)
        cin, cout = os.path.join(work, "rl.json"), os.path.join(work, "rlo.json")
        json.dump([{k: case[k] for k in ("id", "n", "steps", "end")}], open(cin, "w"))
        core.run_driver("harness.drivers.relay_driver", [cin, cout])
        r = core.run_tlc("TraceRelay", "TraceRelay.cfg", env={"TRACE_FILE": cout}, workers=1, timeout=600)
        out.add_tlc("TraceRelay[replay]", r)
        out.traces += 1
        for t in r.tagged("FAIL"):
            out.judge({"clause": "Relay:" + t[2], "end": case["end"]}, {"case": json.load(open(cout))[0], "at": t[3]})
        out.samples.append({"replayed": path})
        return
    if "stages" in case:
        cin, cout = os.path.join(work, "sg.json"), os.path.join(work, "st.json")
        json.dump([{k: case.get(k) for k in ("id", "form", "k", "stages", "mode", "deep")}], open(cin, "w"))
        core.run_driver("harness.drivers.staged_driver", [cin, cout])
        r = core.run_tlc("TraceStaged", "TraceStaged.cfg", env={"TRACE_FILE": cout}, workers=1, timeout=600)
        out.add_tlc("TraceStaged[replay]", r)
        out.traces += 1
        for t in r.tagged("FAIL"):
            out.judge({"clause": t[2], "generator_started_before": False, "mech": False}, {"case": case})
        out.samples.append({"replayed": path})
        return
    traces = L.run_histories([case], work, driver="harness.drivers.gen_driver", par=1)
    fails, results = L.validate(traces, work, spec="TraceGen", par=1)
    for r in results:
        out.add_tlc("TraceGen[replay]", r)
    out.traces += 1
    judge(out, [case], traces, fails)
    out.samples.append({"replayed": path})
