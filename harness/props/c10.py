"""C10 - every name a function binds or reads is selectable; absent names are refused."""
import json
import os

from .. import core


def run(out, tier, seed):
    work = core.scratch("c10-")
    path = os.path.join(work, "names.json")
    core.run_driver("harness.drivers.names_driver", [path])
    cases = json.load(open(path))
    r = core.run_tlc("TraceNames", "TraceNames.cfg", env={"TRACE_FILE": path}, workers=4, timeout=600)
    out.add_tlc("TraceNames", r)
    by = {c["id"]: c for c in cases}
    for tup in r.tagged("FAIL"):
        c = by[tup[1]]
        out.judge({"clause": tup[2], "kind": c["kind"], "sub": c["sub"], "outcome": c["outcome"]},
                  {"selector": f"{c['fn']} > {c['ident']}", "case": c})
    # generated functions (IR families): every local name of every program must be selectable with provenance body/argument
    from .. import progcheck as PC, skeletons as SK
    progs = SK.family_f1(quick=(tier == "quick")) + SK.family_f6()
    opts = {"maxiter": 1, "maxraise": 0, "kinds": ["tuple"], "maxpaths": 1, "seed": seed, "variants": ["singles"], "gen_drive": False}
    out.clause_filter = lambda sig: sig["clause"] == "Activation"
    traces, fails, nruns = PC.run_family(out, progs, opts, "C10")
    out.traces += len(cases)
    out.extra.update({"identifiers": len(cases), "functions": len({c["fn"] for c in cases}), "generated_programs": len(progs),
                      "activations_on_generated_programs": nruns,
                      "rule": "hand-written functions binding/reading names in every placement (parameters of every kind, for/while/"
                              "try/except/else/finally/with/walrus/import/comprehension/lambda/nested def and class/closure/recursion/"
                              "method/staticmethod/generator) x every identifier symtable reports for the function, names of nested "
                              "scopes, fresh names, documented and undocumented meta-variables; non-function objects; plus activation "
                              "of every local name of every generated IR program; outcome, provenance and post-state judged by TLC"})
    out.samples.append(cases[0])
    out.samples.append(cases[-1])


def replay(out, path):
    run(out, "quick", 0)
    out.samples.append({"replayed": path, "note": "the identifier table is small and is re-run completely"})
