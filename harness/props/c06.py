"""C06 - entry/exit, loop, yield, return and error meta-events bracket every path (scripted-world part)."""
from .. import scripts, sel as S, worldcheck as W, worldprops as P

PLAN = {"quick": [("overlay", 160), ("probe", 120)], "thorough": [("overlay", 3000), ("probe", 2000)]}
METAS = ["#enter", "#exit", "#value", "#error", "#loop_i", "#endloop_i"]
SMETAS = ["#enter", "#exit", "#value", "#error", "#loop_i", "#endloop_i", "#loop_j", "#endloop_j"]


def meta_handlers(rng, fns):
    hs = []
    for fn in fns:
        pick = rng.sample(SMETAS if fn == "s" else METAS, rng.randint(2, 4))
        for m in pick:
            hs.append(W.norm_handler({"kind": "imm", "sel": S.node(fn, [S.cap(m, "m", 1)])}))
        if rng.random() < 0.7:
            hs.append(W.norm_handler({"kind": "imm", "sel": S.node(fn, [S.cap("#enter", "e", 1), S.cap("#error", "er", 0),
                                                                   S.cap("#exit", "x", 2)])}))
        if rng.random() < 0.5:
            hs.append(W.norm_handler({"kind": "imm", "raw": True, "sel": S.node(fn, [S.cap("", "x", 1)])}))
        if rng.random() < 0.4:
            # value of a call seen from its caller: g(...) > f(!#value as r)
            hs.append(W.norm_handler({"kind": "imm", "sel": S.node(rng.choice(fns), [S.cap("a", "a", 0)],
                                                                   [S.node(fn, [S.cap("#value", "r", 1)])])}))
    return hs


def gen_case(rng, cid, mode):
    sc = scripts.gen_script(rng, maxlen=rng.randint(5, 45), maxdepth=4, p_call=0.3, reads=False, p_exit=0.25,
                            fns=rng.choice(["fg", "f", "fgh", "fs", "fgs"]))
    fns = P.script_fns(sc)
    hs = meta_handlers(rng, fns)
    if "s" in fns:
        for m in ("#loop_i", "#endloop_i", "#loop_j", "#endloop_j", "#exit", "#error"):
            hs.append(W.norm_handler({"kind": "imm", "sel": S.node("s", [S.cap(m, "m", 1)])}))
        hs.append(W.norm_handler({"kind": "imm", "sel": S.node("s", [S.cap("c", "c", 1), S.cap("i", "i", 0), S.cap("j", "j", 0)])}))
    if rng.random() < 0.35:
        # somebody replaces the returned value, activated AFTER the observers: they report the value actually returned
        fn = rng.choice([x for x in fns if x != "s"] or ["f"])
        hs.append(W.norm_handler({"kind": "imm", "sel": S.node(fn, [S.cap("#value", "v", 1)]), "ovr": {"k": "const", "c": rng.randint(700, 799)}}))
    return {"id": cid, "script": sc, "arg": 0, "handlers": hs}


def meta_ok(p):
    """programs whose meta stream ProgSem models: simple loop targets, single-call protocol"""
    from .. import ir as I
    if p.get("shadow") or p.get("decl", {}).get("var"):
        return False
    return True


def tuple_loop(p):
    from .. import ir as I
    return any(s["s"] == "for" and s["t"]["t"] != "name" for s in I.walk(p["body"]))


def run_static(out, tier, seed):
    """skeleton programs: every path, probes on every meta-variable, merged stream against ProgSem (TraceMeta)"""
    import json
    import os
    import random
    from concurrent.futures import ThreadPoolExecutor
    from .. import core, progcheck as PC, skeletons as SK
    rng = random.Random(seed * 7919 + 53)
    nrand = 80 if tier == "quick" else 2000
    progs = [p for p in SK.family_f1(quick=(tier == "quick")) + SK.family_f6() + [SK.random_program(rng, 9000 + i) for i in range(nrand)] if meta_ok(p)]
    opts = {"maxiter": 2, "maxraise": 1, "kinds": ["tuple"], "maxpaths": 8 if tier == "quick" else 40, "seed": seed,
            "variants": ["meta", "meta_single"], "gen_drive": True, "with_prog": True}
    tuple_pids = {p["id"] for p in progs if tuple_loop(p)}
    work = core.scratch("c06s-")
    traces = PC.run_jobs(progs, opts, work)
    cases, skipped = [], 0
    for t in traces:
        for ri, r in enumerate(t["runs"]):
            if r["act_err"] or r["log"] != [e for e in t["ref"]["log"] if e[0] != "bind"] or r["result"] != t["ref"]["result"]:
                skipped += 1          # not transparent on this path (C01 judges that); the meta stream is not comparable
                continue
            if r["only"] == "" and t["pid"] in tuple_pids:
                continue              # the loop events of the several variables of one tuple target come in no specified order
            cases.append({"id": t["id"] * 100 + ri, "form": t["form"], "ctx": t["ctx"], "prog": t["prog"], "reflog": t["ref"]["log"],
                          "merged": r["streams"][0], "result": t["ref"]["result"], "script": t["script"], "pid": t["pid"],
                          "only": r["only"]})
    chunks = [cases[i:i + 400] for i in range(0, len(cases), 400)]

    def one(ix):
        p = os.path.join(work, f"mv{ix}.json")
        json.dump(chunks[ix], open(p, "w"))
        return core.run_tlc("TraceMeta", "TraceMeta.cfg", env={"TRACE_FILE": p}, workers=2, timeout=1800)
    with ThreadPoolExecutor(max_workers=8) as ex:
        results = list(ex.map(one, range(len(chunks))))
    by = {c["id"]: c for c in cases}
    ndrift = 0
    for i, r in enumerate(results):
        out.add_tlc(f"TraceMeta[{i}]", r)
        for tup in r.tagged("FAIL"):
            c = by[tup[1]]
            if tup[2] == "Drift":
                ndrift += 1
                if len(out.drift) < 10:
                    out.drift.append({"form": c["form"], "ctx": c["ctx"], "why": tup[3]})
                continue
            out.judge({"clause": tup[2], "var": tup[3] if tup[2] == "MetaEvents" else "", "why": "static"},
                      {"program": next(p for p in progs if p["id"] == c["pid"]), "script": c["script"], "merged": c["merged"],
                       "verdict": list(tup[2:])})
    out.traces += len(cases)
    out.extra.update({"static_programs": len(progs), "static_paths": len(cases), "static_paths_not_transparent": skipped,
                      "progsem_drift": ndrift})
    if cases:
        out.samples.append({"form": cases[0]["form"], "script": cases[0]["script"], "merged_meta_stream": cases[0]["merged"]})


def run(out, tier, seed):
    from .. import envcheck
    envcheck.run(out, tier, seed)          # Envelope.tla: the activation envelope as a state machine, every driver of a generator
    run_static(out, tier, seed)
    P.run_world(out, tier, seed, gen_case, PLAN, salt=17,
                rule="random call trees whose activations end by return, falling off the end, raising (propagating through "
                     "several frames or caught), with loops left by fall-through/continue/break/return/raise; probes on "
                     "#enter/#exit/#value/#error/#loop_i/#endloop_i, the wrapper probe f(!#enter, #error, !!#exit) and a raw "
                     "generic probe; per-handler sequences and the cross-handler order of every event are checked",
                sample_filter=lambda t: sum(len(e["dlv"]) for e in t["events"]) > 5)


def replay(out, path):
    """a recorded violation run again: envelope cases (Envelope.tla / EnvelopePair.tla) through their own drivers, the others
    through the scripted world"""
    import json
    import os
    from .. import core, envcheck as E
    doc = json.load(open(path))
    if doc.get("signature", {}).get("why") != "envelope":
        return P.replay_world(out, path)
    case = doc["case"]["case"]
    work = core.scratch("c06r-")
    if "hist" in case:
        res = E.execute([{"id": case["id"], "hist": case["hist"]}], work, par=1)
        pj = os.path.join(work, "pairs.json")
        json.dump([{"id": c["id"], "events": c["events"], "still": c["still"], "started": c["started"]} for c in res], open(pj, "w"))
        t = core.run_tlc("TraceEnvelopePair", "TraceEnvelopePair.cfg", env={"TRACE_FILE": pj}, workers=1, timeout=600)
        out.add_tlc("TraceEnvelopePair[replay]", t)
        for tup in t.tagged("FAIL"):
            out.judge({"clause": "WrapPairing:" + tup[2], "why": "envelope"}, {"case": res[0], "verdict": list(tup[2:])})
    else:
        res = E.execute([{"id": case["id"], "cfg": case["cfg"], "how": case["how"]}], work, par=1)
        E.judge(out, res, E.validate(res, work, par=1), label="TraceEnvelope[replay]")
    out.traces += len(res)
    out.samples.append({"replayed": path, "observed": res[0].get("out", res[0].get("events"))})
