"""C06 - entry/exit, loop, yield, return and error meta-events bracket every path (scripted-world part)."""
from .. import scripts, sel as S, worldcheck as W, worldprops as P

PLAN = {"quick": [("overlay", 160), ("probe", 120)], "thorough": [("overlay", 3000), ("probe", 2000)]}
METAS = ["#enter", "#exit", "#value", "#error", "#loop_i", "#endloop_i"]
SMETAS = ["#enter", "#exit", "#value", "#error", "#loop_i", "#endloop_i", "#loop_j", "#endloop_j"]


def meta_handlers(rng, fns):
    hs = []
    for fn in fns:
        pick = rng.sample(SMETAS if fn == "s" else METAS, rng.randint(2, 4))
        for m in pick:
            hs.append(W.norm_handler({"kind": "imm", "sel": S.node(fn, [S.cap(m, "m", 1)])}))
        if rng.random() < 0.7:
            hs.append(W.norm_handler({"kind": "imm", "sel": S.node(fn, [S.cap("#enter", "e", 1), S.cap("#error", "er", 0),
                                                                   S.cap("#exit", "x", 2)])}))
        if rng.random() < 0.5:
            hs.append(W.norm_handler({"kind": "imm", "raw": True, "sel": S.node(fn, [S.cap("", "x", 1)])}))
        if rng.random() < 0.4:
            # value of a call seen from its caller: g(...) > f(!#value as r)
            hs.append(W.norm_handler({"kind": "imm", "sel": S.node(rng.choice(fns), [S.cap("a", "a", 0)],
                                                                   [S.node(fn, [S.cap("#value", "r", 1)])])}))
    return hs


def gen_case(rng, cid, mode):
    sc = scripts.gen_script(rng, maxlen=rng.randint(5, 45), maxdepth=4, p_call=0.3, reads=False, p_exit=0.25,
                            fns=rng.choice(["fg", "f", "fgh", "fs", "fgs"]))
    fns = P.script_fns(sc)
    hs = meta_handlers(rng, fns)
    if "s" in fns:
        for m in ("#loop_i", "#endloop_i", "#loop_j", "#endloop_j", "#exit", "#error"):
            hs.append(W.norm_handler({"kind": "imm", "sel": S.node("s", [S.cap(m, "m", 1)])}))
        hs.append(W.norm_handler({"kind": "imm", "sel": S.node("s", [S.cap("c", "c", 1), S.cap("i", "i", 0), S.cap("j", "j", 0)])}))
    return {"id": cid, "script": sc, "arg": 0, "handlers": hs}


def run(out, tier, seed):
    P.run_world(out, tier, seed, gen_case, PLAN, salt=17,
                rule="random call trees whose activations end by return, falling off the end, raising (propagating through "
                     "several frames or caught), with loops left by fall-through/continue/break/return/raise; probes on "
                     "#enter/#exit/#value/#error/#loop_i/#endloop_i, the wrapper probe f(!#enter, #error, !!#exit) and a raw "
                     "generic probe; per-handler sequences and the cross-handler order of every event are checked",
                sample_filter=lambda t: sum(len(e["dlv"]) for e in t["events"]) > 5)


replay = P.replay_world
