"""C01 - instrumentation is transparent when nothing is overridden."""
import json
import random

from .. import core, progcheck as PC, skeletons as SK, ir as I

ALLKINDS = ["tuple", "list", "gen", "dict", "set", "str", "iter", "short", "long", "noniter"]


def plan(tier, seed):
    rng = random.Random(seed * 7919 + 23)
    if tier == "quick":
        progs = SK.family_f1(quick=True) + SK.family_f6() + SK.family_state() + [SK.random_program(rng, 5000 + i) for i in range(60)]
        opts = {"maxiter": 2, "maxraise": 1, "kinds": ["tuple", "list", "gen", "short"], "maxpaths": 6, "seed": seed,
                "variants": ["tooled", "inplace", "singles", "all", "generic", "totals"], "gen_drive": True,
                "exotic": ["eqall", "eqraise", "float", "true"]}
    else:
        progs = SK.family_f1(quick=False) + SK.family_f6() + SK.family_state() + [SK.random_program(rng, 5000 + i) for i in range(1500)]
        opts = {"maxiter": 2, "maxraise": 1, "kinds": ALLKINDS, "maxpaths": 40, "seed": seed, "raise_E": True,
                "variants": ["tooled", "inplace", "singles", "all", "generic", "pairs", "totals"], "gen_drive": True,
                "exotic": ["eqall", "eqraise", "float", "true"]}
    return progs, opts


def run(out, tier, seed):
    progs, opts = plan(tier, seed)
    out.clause_filter = lambda sig: sig["clause"] in ("Activation", "Log", "Result")
    traces, fails, nruns = PC.run_family(out, progs, opts, "C01")
    # M level of the assignment rewrite (Xform.tla): TLC over every small statement shape, then the shapes for real -
    # an observable difference is known only if it is exactly what the rewrite model predicts
    from .. import xformcheck as XC
    XC.run(out, tier, seed, {"Log", "Result", "Activation"}, ["tooled", "inplace", "singles", "all", "pairs"], 250 if tier == "quick" else 0, pinned=True)
    out.extra.update({"programs": len(progs), "paths": len(traces), "instrumented_runs": nruns,
                      "forms": sorted({p["form"] for p in progs}), "contexts": sorted({p["ctx"] for p in progs}),
                      "rule": "IR families F1 (statement forms x contexts) and F6 (control-flow nests) plus random compositions; "
                              "every control-flow path within bounds (loop lengths 0-2, each condition both ways, <=1 raise) "
                              "found by systematic decision search; each path run plain, as twin and instrumented by "
                              "tooled / tooled.inplace / non-overriding probes on every single variable, all variables and $x; "
                              "observable log and result compared by TLC (TraceXform)"})
    t = traces[0]
    out.samples.append({"program": I.render(next(p for p in progs if p["id"] == t["pid"])).split("\n", 4)[4],
                        "script": t["script"], "ref_log": t["ref"]["log"], "result": t["ref"]["result"],
                        "runs": [(r["mode"], [s["focus"] for s in r["sels"]]) for r in t["runs"]]})


def replay(out, path):
    case = json.load(open(path))["case"]
    out.clause_filter = None
    opts = {"maxiter": 2, "maxraise": 1, "kinds": ALLKINDS, "maxpaths": 200, "seed": 0,
            "variants": ["tooled", "inplace", "singles", "all", "generic", "pairs"], "gen_drive": True, "raise_E": True}
    PC.run_family(out, [case["program"]], opts, "replay")
    out.samples.append({"replayed": path})
