"""C03 - call-path selectors fire once per way the path matches the live call stack."""
from .. import scripts, sel as S, worldcheck as W, worldprops as P

PLAN = {"quick": [("overlay", 240), ("probe", 120)], "thorough": [("overlay", 5000), ("probe", 2000)]}


def gen_case(rng, cid, mode):
    sc = scripts.gen_script(rng, maxlen=rng.randint(5, 45), maxdepth=5, p_call=0.4, reads=False,
                            fns=rng.choice(["fgh", "fg", "fh", "f"]))
    fns = P.script_fns(sc)
    hs = []
    for _ in range(4):
        s = S.gen_sel(rng, fns=fns, names=("a", "b", "p", "c", "i"), maxdepth=rng.choice([2, 3, 3, 4]))
        hs.append(W.norm_handler({"kind": "imm", "sel": s}))
    return {"id": cid, "script": sc, "arg": 0, "handlers": hs}


def run(out, tier, seed):
    P.run_world(out, tier, seed, gen_case, PLAN, salt=3,
                rule="random call trees over f,g,h (depth<=5, recursion, loops, catches) x 4 focused selectors each "
                     "(focus path<=4, off-path kids, aliases), overlay mode and probing() mode; every delivery compared, "
                     "per causing event and per handler, with the bag of embeddings owed by PteraAbs",
                sample_filter=lambda t: sum(len(e["dlv"]) for e in t["events"]) > 3)


replay = P.replay_world
