"""C03 - call-path selectors fire once per way the path matches the live call stack."""
import json
import random

from .. import core, scripts, sel as S, worldcheck as W


def gen_cases(rng, n, start, maxlen, nsel, maxdepth):
    cases = []
    for i in range(n):
        sc = scripts.gen_script(rng, maxlen=rng.randint(5, maxlen), maxdepth=maxdepth, p_call=0.4,
                                reads=False, aug=True, ann=True)
        hs = []
        for _ in range(nsel):
            s = S.gen_sel(rng, names=("a", "b", "p", "c", "i"), maxdepth=rng.choice([2, 3, 3, 4]))
            hs.append(W.norm_handler({"kind": "imm", "sel": s}))
        cases.append({"id": start + i, "script": sc, "arg": 0, "handlers": hs})
    return cases


def run(out, tier, seed):
    rng = random.Random(seed * 7919 + 3)
    n_ov, n_pr = (240, 120) if tier == "quick" else (4000, 1500)
    maxlen = 40 if tier == "quick" else 60
    work = core.scratch("c03-")
    batches = []
    per = 60 if tier == "quick" else 250
    cid = 0
    for mode, n in (("overlay", n_ov), ("probe", n_pr)):
        left = n
        while left > 0:
            k = min(per, left)
            batches.append((mode, gen_cases(rng, k, cid, maxlen, 4, 5)))
            cid += k
            left -= k
    all_cases = {c["id"]: (m, c) for m, cs in batches for c in cs}
    traces = W.run_cases(batches, work, par=12)
    fails, results = W.validate(traces, work, par=12)
    for i, r in enumerate(results):
        out.add_tlc(f"TracePtera[{i}]", r)
    out.traces += len(traces)
    W.judge(out, traces, fails, lambda tid: {"mode": all_cases[tid][0], **all_cases[tid][1]})
    ndlv = sum(len(e["dlv"]) for t in traces for e in t["events"])
    multi = sum(1 for t in traces for e in t["events"] if len(e["dlv"]) > 1)
    out.extra.update({"deliveries_checked": ndlv, "events_with_several_embeddings_or_handlers": multi,
                      "events": sum(len(t["events"]) for t in traces),
                      "rule": "random call trees over f,g,h (depth<=5, loops, catches) x 4 focused selectors each "
                              "(focus path<=4, off-path kids, aliases); overlay mode and probing() mode"})
    t0 = traces[0]
    out.samples.append({"script": all_cases[t0["id"]][1]["script"][:12],
                        "selectors": [S.sel_str(h["sel"]) for h in t0["handlers"]],
                        "verdict": "accepted" if t0["id"] not in fails else "rejected"})


def replay(out, path):
    payload = json.load(open(path))["case"]["case"]
    mode = payload.pop("mode")
    work = core.scratch("c03r-")
    traces = W.run_cases([(mode, [payload])], work, par=1)
    fails, results = W.validate(traces, work, par=1)
    for r in results:
        out.add_tlc("TracePtera[replay]", r)
    out.traces += 1
    W.judge(out, traces, fails, lambda tid: {"mode": mode, **payload})
    out.samples.append({"replayed": path, "fails": {str(k): v for k, v in fails.items()}})
