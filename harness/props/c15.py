"""C15 - the documented selector notations are interchangeable."""
import json

from .. import core, parsecheck as PC


def run(out, tier, seed):
    work = core.scratch("c15-")
    r = core.run_tlc("ParserLaws", "ParserLaws.cfg", workers=8, timeout=900)
    out.add_tlc("ParserLaws", r)
    if r.violated:
        out.judge({"clause": "LawModel", "why": "TLC"}, {"tlc": r.out[-2500:]})
    cases = PC.run_cases(tier, seed, work)
    # law pairs, re-spacings, and every grammar-derived selector that compiles (focus attributes)
    cases = [c for c in cases if c["kind"] in ("law", "ws", "distinct") or (c["kind"] == "parse" and c["src"] == "grammar" and c["out"]["k"] in ("E", "C"))]
    fails = PC.validate(out, cases, work)
    by = {c["id"]: c for c in cases}
    for cid, clause, detail in fails:
        c = by[cid]
        if clause in ("Drift", "DriftLexer"):
            out.drift.append({"case": c.get("text", c.get("ltext")), "clause": clause})
        elif clause == "Focus":
            out.judge({"clause": "Focus", "why": detail}, {"selector": c["text"], "compiled": c["out"], "reported": c["attrs"]})
        elif clause in ("Law", "LawModel"):
            payload = {"law": detail, "lhs": c.get("ltext", c.get("base_text")), "rhs": c.get("rtext", c.get("text")),
                       "same_object": c.get("same", c.get("attrs", {}).get("same_later"))}
            out.judge({"clause": clause, "why": detail}, payload)
    out.traces += len(cases)
    out.extra.update({"law_pairs": sum(1 for c in cases if c["kind"] == "law"),
                      "whitespace_variants": sum(1 for c in cases if c["kind"] == "ws"),
                      "focus_cases": sum(1 for c in cases if c["kind"] == "parse"),
                      "rule": "TLC: the documented equivalences (also with a category / value / predicate attached to the $x and * as x spellings) x 3 function operands x 14 capture operands x 9 context operands "
                              "through the parser transcription (equal parses, exactly one focus); the same substitutions and "
                              "random re-spacings through the real parse(), judged by TLC: equal outcome, identical object, "
                              "lexer model agrees on every re-spaced token list; .main/.focus of every compiled grammar-derived selector, read at once "
                              "and again at the end of the process, equal the focus its structure determines (Parser.tla DMain)"})
    for c in cases[:2] + cases[-2:]:
        out.samples.append({k: c[k] for k in c if k in ("law", "ltext", "rtext", "text", "base_text", "same")})


def replay(out, path):
    out.samples.append({"replayed": path, "note": "law cases are regenerated deterministically by the quick run"})
    run(out, "quick", 0)
