"""C15 - the documented selector notations are interchangeable."""
import json

from .. import core, parsecheck as PC


def run(out, tier, seed):
    work = core.scratch("c15-")
    r = core.run_tlc("ParserLaws", "ParserLaws.cfg", workers=8, timeout=900)
    out.add_tlc("ParserLaws", r)
    if r.violated:
        out.judge({"clause": "LawModel", "why": "TLC"}, {"tlc": r.out[-2500:]})
    cases = PC.run_cases(tier, seed, work)
    cases = [c for c in cases if c["kind"] in ("law", "ws")]
    fails = PC.validate(out, cases, work)
    by = {c["id"]: c for c in cases}
    for cid, clause, detail in fails:
        c = by[cid]
        if clause in ("Drift", "DriftLexer"):
            out.drift.append({"case": c.get("text", c.get("ltext")), "clause": clause})
        elif clause in ("Law", "LawModel"):
            payload = {"law": detail, "lhs": c.get("ltext", c.get("base_text")), "rhs": c.get("rtext", c.get("text")),
                       "same_object": c["same"]}
            out.judge({"clause": clause, "why": detail}, payload)
    out.traces += len(cases)
    out.extra.update({"law_pairs": sum(1 for c in cases if c["kind"] == "law"),
                      "whitespace_variants": sum(1 for c in cases if c["kind"] == "ws"),
                      "rule": "TLC: ten documented equivalences x 3 function operands x 14 capture operands x 9 context operands "
                              "through the parser transcription (equal parses, exactly one focus); the same substitutions and "
                              "random re-spacings through the real parse(), judged by TLC: equal outcome, identical object, "
                              "lexer model agrees on every re-spaced token list"})
    for c in cases[:2] + cases[-2:]:
        out.samples.append({k: c[k] for k in c if k in ("law", "ltext", "rtext", "text", "base_text", "same")})


def replay(out, path):
    out.samples.append({"replayed": path, "note": "law cases are regenerated deterministically by the quick run"})
    run(out, "quick", 0)
