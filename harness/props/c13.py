"""C13 - method selectors bind to the right function and the right receiver."""
import json
import os
import random

from .. import core


def run(out, tier, seed):
    rng = random.Random(seed * 7919 + 43)
    work = core.scratch("c13-")
    maxcalls = 2 if tier == "quick" else 3
    r = core.run_tlc("RecvMC", f"INIT InitX\nNEXT Next\nCONSTANT MaxCalls = {maxcalls}\nCONSTRAINT Collect\nPOSTCONDITION Report\nCHECK_DEADLOCK FALSE\n",
                     workers=1, timeout=900)
    out.add_tlc(f"RecvMC[calls<={maxcalls}]", r)
    sigs = {t[1]: t[2] for t in r.tagged("SIGNATURE")}
    cases = []
    for t in r.tagged("HIST"):
        meth = rng.choice(["meth", "meth", "other", "deco", "deco2", "store", "tree", "__call__"])
        path = rng.choice(["direct", "direct", "dotted", "selfcap", "selfalias", "selffocus", "nested", "nested_ctx", "callonly"])
        cases.append({"id": len(cases), "src": "tlc-exhaustive", "target": t[1], "calls": list(t[2]), "method": meth, "path": path,
                      "via": [rng.random() < 0.8 for _ in t[2]]})
    for s, w in sigs.items():
        cases.append({"id": len(cases), "src": "witness:" + s, "target": w[0], "calls": list(w[1]), "method": "meth", "path": "direct"})
    objs = ["k1", "k2", "s1", "e1", "e2", "e3", "u1", "u2"]
    for _ in range(200 if tier == "quick" else 3000):
        calls = [rng.choice(objs) for _ in range(rng.randint(1, 5))]
        cases.append({"id": len(cases), "src": "random", "target": rng.choice(objs + ["K", "Sub", "E", "U"]), "calls": calls,
                      "method": rng.choice(["meth", "other", "deco", "deco2", "store", "tree", "tree", "__call__"]),
                      "path": rng.choice(["direct", "dotted", "selfcap", "selfalias", "selffocus", "nested", "nested_ctx", "callonly"]),
                      "via": [rng.random() < 0.8 for _ in calls]})
    for cls in ["K", "Sub", "E", "U"]:
        cases.append({"id": len(cases), "src": "property", "target": cls, "calls": objs, "method": "prop", "path": "direct"})
        cases.append({"id": len(cases), "src": "property", "target": cls, "calls": objs, "method": "prop2", "path": "direct"})
    # the entry event of an object-bound method; two object-bound levels in one path
    for _ in range(30 if tier == "quick" else 400):
        calls = [rng.choice(objs) for _ in range(rng.randint(1, 4))]
        cases.append({"id": len(cases), "src": "enter", "target": rng.choice(objs[:6]), "calls": calls,
                      "method": rng.choice(["meth", "tree"]), "path": "enter", "via": [True] * len(calls)})
        calls = [rng.choice(objs) for _ in range(rng.randint(1, 4))]
        cases.append({"id": len(cases), "src": "external", "target": rng.choice(objs[:6]), "calls": calls,
                      "method": "glob", "path": "external", "via": [True] * len(calls)})
        calls = [rng.choice(["k1", "k2", "s1", "e1", "e3"]) for _ in range(rng.randint(1, 3))]
        cases.append({"id": len(cases), "src": "nested2", "target": rng.choice(["k1", "k2", "e1"]), "target2": rng.choice(["k2", "s1", "e3"]),
                      "calls": calls, "method": "tree", "path": "nested2", "via": [True] * len(calls)})
    # a third of the cases are written without env=, inside a function whose locals shadow same-named globals
    for c in cases:
        if c["src"] != "tlc-exhaustive" and rng.random() < 0.35 or c["src"] == "tlc-exhaustive" and rng.random() < 0.2:
            c["scope"] = "local"
    cin, cout = os.path.join(work, "rc.json"), os.path.join(work, "rt.json")
    json.dump(cases, open(cin, "w"))
    core.run_driver("harness.drivers.recv_driver", [cin, cout])
    res = json.load(open(cout))
    by = {c["id"]: c for c in res}
    r2 = core.run_tlc("TraceRecv", "TraceRecv.cfg", env={"TRACE_FILE": cout}, workers=4, timeout=900)
    out.add_tlc("TraceRecv", r2)
    seen = set()
    for tup in r2.tagged("FAIL"):
        c = by[tup[1]]
        seen.add(c["src"])
        out.judge({"clause": tup[2], "why": tup[3], "path": c["path"] if c["path"] in ("enter", "nested2", "external") else ""},
                  {"selector": c["text"], "calls": c["calls"], "events": c["events"], "outcome": c["outcome"]})
    for s in sigs:
        if "witness:" + s not in seen:
            out.drift.append(f"signature {s} predicted by the receiver model did not reproduce")
    out.traces += len(res)
    out.extra.update({"cases": len(res), "model_signatures": sorted(sigs),
                      "rule": "population of 8 instances (plain, subclass, value-equal hashable, value-equal unhashable) x every "
                              "probed object or class x every call sequence up to the bound (TLC), through direct access, a "
                              "functools.wraps decorator, a property, a dotted attribute path, a receiver parameter not named "
                              "self, and as the inner step of a call path (poll > obj.meth > v, calls made under poll or directly); plus random longer sequences; events, reported receiver, return values and the same-named "
                              "plain function judged by TraceRecv"})
    out.samples.append({k: res[0][k] for k in ("text", "calls", "events", "outcome")})


def replay(out, path):
    run(out, "quick", 0)
    out.samples.append({"replayed": path})
