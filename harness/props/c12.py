"""C12 - value conditions in selectors filter events exactly by the stated predicate (end-to-end part)."""
from .. import scripts, sel as S, worldcheck as W, worldprops as P
from . import c04

PLAN = {"quick": [("overlay", 200), ("probe", 100)], "thorough": [("overlay", 4000), ("probe", 1500)]}


def gen_case(rng, cid, mode):
    sc = scripts.gen_script(rng, maxlen=rng.randint(8, 45), maxdepth=4, p_call=0.3, reads=True, valmax=40,
                            fns=rng.choice(["fg", "f", "fgh"]), ann=False)
    fns = P.script_fns(sc)
    hs = []
    for _ in range(3):
        s = S.gen_sel(rng, fns=fns, names=("a", "b", "p", "i"), maxdepth=rng.choice([1, 2, 3]), conds=True)
        hs.append(W.norm_handler({"kind": "imm", "sel": s}))
    # a sibling of the first selector: the same text with one of its later conditions dropped or changed - compiled
    # selectors are interned, so the two share every element they have in common
    import copy
    conds = []

    def walk(n):
        for c in n["caps"]:
            if c["cond"]["k"] != "none":
                conds.append(c)
        for k in n["kids"]:
            walk(k)
    # make sure the first selector constrains at least two of its captures
    plain = []

    def collect(n):
        for c in n["caps"]:
            if c["name"] in ("a", "b", "p", "i"):
                (conds if c["cond"]["k"] != "none" else plain).append(c)
        for k in n["kids"]:
            collect(k)
    collect(hs[0]["sel"])
    rng.shuffle(plain)
    while len(conds) < 2 and plain:
        c = plain.pop()
        c["cond"] = S.cond(rng.choice(["lt", "gte", "gt", "lte"]), n=rng.randint(5, 35))
        conds.append(c)
    conds.clear()
    sib = copy.deepcopy(hs[0]["sel"])
    walk(sib)
    if len(conds) >= 2:
        victim = rng.choice(conds[1:])
        victim["cond"] = dict(S.NOCOND) if rng.random() < 0.6 else dict(victim["cond"], n=victim["cond"]["n"] + 1)
        hs[rng.choice([1, 2])] = W.norm_handler({"kind": "imm", "sel": sib})
    if rng.random() < 0.5:
        # one variable constrained twice in the same parentheses (a range written as two conditions): both apply
        tgt = hs[rng.choice([0, 1, 2])]["sel"]
        cands = []

        def find(n):
            for i, c in enumerate(n["caps"]):
                if c["name"] in ("a", "b", "p", "i") and c["cond"]["k"] in ("lt", "gt", "lte", "gte", "eq") and c["tag"] == 0:
                    cands.append((n, i))
            for k in n["kids"]:
                find(k)
        find(tgt)
        if cands:
            n, i = rng.choice(cands)
            twin = copy.deepcopy(n["caps"][i])
            twin["cond"] = S.cond(rng.choice(["lt", "gte", "gt", "lte"]), n=rng.randint(3, 37))
            n["caps"].insert(i + rng.choice([0, 1]), twin)
    var = rng.choice(["a", "b", "i", "p"])
    s = c04.focused_on(rng, fns, var, conds=True)
    hs.insert(rng.randint(0, 3), W.norm_handler({"kind": "imm", "sel": s, "ovr": {"k": "const", "c": rng.randint(500, 999)}}))
    if rng.random() < 0.5:
        # a second conditional override on the same variable: each applies under its own condition, the most recent
        # one that does not decline wins
        s2 = c04.focused_on(rng, fns, var, conds=True)
        hs.insert(rng.randint(0, 4), W.norm_handler({"kind": "imm", "sel": s2, "ovr": {"k": "const", "c": rng.randint(300, 499)}}))
    return {"id": cid, "script": sc, "arg": rng.randint(0, 40), "handlers": hs}


NEG = {1: 300001, 2: 300002}


def gen_neg_case(rng, cid, mode):
    """equality conditions on values whose hashes collide although they differ (hash(-1) == hash(-2) in CPython): two selectors
    that differ only there are two selectors, each filtering by its own value"""
    import copy
    sc = scripts.gen_script(rng, maxlen=rng.randint(8, 30), maxdepth=3, p_call=0.3, reads=True, valmax=3, aug=False, ann=False,
                            fns=rng.choice(["fg", "f"]))
    sc = [[op[0], NEG.get(op[1], op[1])] if (op[0].startswith(("bind_", "call_", "catch_")) or op[0] == "iter") else op for op in sc]
    fns = P.script_fns(sc)
    for _ in range(20):
        s = S.gen_sel(rng, fns=fns, names=("a", "b", "p", "i"), maxdepth=rng.choice([1, 2]), conds=False)
        caps = []

        def walk(n):
            caps.extend(c for c in n["caps"] if c["name"] in ("a", "b", "p", "i"))
            for k in n["kids"]:
                walk(k)
        walk(s)
        if caps:
            break
    hs = []
    if caps:
        i = rng.randrange(len(caps))
        vals = rng.sample([300001, 300002], 2)
        for v in vals:
            t = copy.deepcopy(s)
            caps2 = []

            def walk2(n):
                caps2.extend(c for c in n["caps"] if c["name"] in ("a", "b", "p", "i"))
                for k in n["kids"]:
                    walk2(k)
            walk2(t)
            caps2[i]["cond"] = S.cond("eq", n=v)
            h = {"kind": "imm", "sel": t}
            if rng.random() < 0.3:
                h["ovr"] = {"k": "const", "c": rng.randint(500, 999)}
            hs.append(W.norm_handler(h))
    else:
        hs.append(W.norm_handler({"kind": "imm", "sel": s}))
    return {"id": cid, "script": sc, "arg": rng.choice([0, 300001, 300002]), "handlers": hs}


def gen_any(rng, cid, mode):
    return gen_neg_case(rng, cid, mode) if rng.random() < 0.12 else gen_case(rng, cid, mode)


def run_e2e(out, tier, seed):
    return P.run_world(out, tier, seed, gen_any, PLAN, salt=13,
                       rule="loop/call scripts with values in 0..40 x selectors constraining captures at different stack levels "
                            "and the trigger itself (=, lt, gt, lte, gte, every, between), observing and overriding",
                       sample_filter=lambda t: sum(len(e["dlv"]) for e in t["events"]) > 2)


def run(out, tier, seed):
    import json
    import os
    from .. import core
    # (1) design level: the code's formula (M) equals the stated meaning (A) on the whole box
    r = core.run_tlc("Tools", "ToolsBox.cfg" if tier == "quick" else "ToolsBoxBig.cfg", workers=8, timeout=600)
    out.add_tlc("Tools box A=M", r)
    if r.violated:
        out.judge({"clause": "PredicateFormula", "var": "", "why": "model"}, {"tlc": r.out[-2000:]})
    # (2) the real predicates on the same box, judged by the A-level definitions
    work = core.scratch("c12t-")
    path = os.path.join(work, "tools.json")
    n = int(core.run_driver("harness.drivers.tools_driver", [tier, seed, path]).strip())
    cases = json.load(open(path))
    chunks = [cases[i:i + 30000] for i in range(0, len(cases), 30000)]
    nfail = 0
    for i, ch in enumerate(chunks):
        p = os.path.join(work, f"tools{i}.json")
        json.dump(ch, open(p, "w"))
        r = core.run_tlc("TraceTools", "TraceTools.cfg", env={"TRACE_FILE": p}, workers=8, timeout=900)
        out.add_tlc(f"TraceTools[{i}]", r)
        for tup in r.tagged("FAIL"):
            nfail += 1
            c = tup[2]
            out.judge({"clause": "Predicate", "var": c["k"], "why": ""}, {"point": c})
    for c in cases:
        if c.get("e2e") and c.get("leftover"):
            out.judge({"clause": "Predicate", "var": "throttle", "why": "events that no item explains"}, {"point": c})
    out.traces += n
    out.extra["predicate_points"] = n
    out.extra["throttle_end_to_end"] = sum(1 for c in cases if c.get("e2e"))
    out.samples.append(cases[0])
    out.samples.append(cases[-1])
    # (3) end to end: conditioned selectors in the scripted world
    run_e2e(out, tier, seed)


replay = P.replay_world
