"""C11 - tag selectors capture exactly the bindings that carry the tag."""
import json
import os

from .. import core, scripts, sel as S, worldcheck as W, worldprops as P

PLAN = {"quick": [("probe", 80), ("overlay", 60)], "thorough": [("probe", 1500), ("overlay", 1000)]}


def gen_case(rng, cid, mode):
    """scripted world: p carries @P, the annotated assignment c carries @T; generic and named captures restricted by tag"""
    sc = scripts.gen_script(rng, maxlen=rng.randint(6, 40), maxdepth=3, p_call=0.25, reads=False, fns=rng.choice(["f", "fg"]))
    fns = P.script_fns(sc)
    hs = []
    conds = rng.random() < 0.5       # a tag restriction and a value condition on the same capture: both apply
    for _ in range(4):
        s = S.gen_sel(rng, fns=fns, names=("a", "b", "p", "c"), maxdepth=rng.choice([1, 2]), generic=0.5, cats=0.6, conds=conds,
                      values=range(0, 25))
        hs.append(W.norm_handler({"kind": "imm", "sel": s, "raw": True}))
    if len(fns) > 1 and rng.random() < 0.5:
        # a function tag on a level of the path that captures nothing: no function of the world carries a tag, so the
        # selector matches no call at all (whatever its deeper levels would capture)
        outer, inner = rng.choice(fns), rng.choice(fns)
        nm = rng.choice(["a", "b", "c", ""])
        # (a named capture may only be restricted to a tag the variable really carries: c carries T, a and b carry none)
        leaf = S.node(inner, [S.cap(nm, "k9", 1, cat=rng.choice(["", "T"]) if nm in ("c", "") else "")])
        top = S.node(outer, [], [leaf], fcat="T")
        if rng.random() < 0.4:
            top = S.node(rng.choice(fns), [S.cap("a", "k8", 0)], [top])
        hs.append(W.norm_handler({"kind": "imm", "sel": top, "raw": True}))
    return {"id": cid, "script": sc, "arg": rng.randint(0, 30), "handlers": hs}


def run(out, tier, seed):
    # (1) the tag algebra: transcription of tags.py against set semantics, every expression up to 4 names
    r = core.run_tlc("Tags", "TagsMC.cfg", workers=4, timeout=600)
    out.add_tlc("TagsMC", r)
    if r.violated:
        out.judge({"clause": "TagAlgebra"}, {"tlc": r.out[-2000:]})
    # (1b) the same algebra with object identity: & creates a new object and changes no existing one (TagHeap.tla);
    #      the InPlace variant of the mechanism must be rejected by the same clauses (they discriminate)
    r = core.run_tlc("TagHeap", "TagHeap.cfg", workers=4, timeout=600)
    out.add_tlc("TagHeap", r)
    if r.violated:
        out.judge({"clause": "TagAlgebra:heap-model"}, {"tlc": r.out[-2000:]})
    r2 = core.run_tlc("TagHeap", "TagHeapInPlace.cfg", workers=4, timeout=600)
    out.add_tlc("TagHeap[InPlace]", r2)
    if not r2.violated:
        out.drift.append("TagHeap: the in-place variant of _merge is not rejected by Denotes / OperandsUnchanged (vacuous clauses?)")
    # (2) generated functions with tag assignments x tag selectors, judged by TraceTags
    work = core.scratch("c11-")
    path = os.path.join(work, "tags.json")
    core.run_driver("harness.drivers.tag_driver", [tier, seed, path])
    cases = json.load(open(path))
    chunks = [cases[i:i + 1500] for i in range(0, len(cases), 1500)]
    by = {c["id"]: c for c in cases}
    for i, ch in enumerate(chunks):
        p = os.path.join(work, f"tg{i}.json")
        json.dump(ch, open(p, "w"))
        r = core.run_tlc("TraceTags", "TraceTags.cfg", env={"TRACE_FILE": p}, workers=4, timeout=900)
        out.add_tlc(f"TraceTags[{i}]", r)
        for tup in r.tagged("FAIL"):
            c = by[tup[1]]
            out.judge({"clause": tup[2], "kind": c["kind"]}, {"selector": c["text"], "tags": c["cfg"], "outcome": c["outcome"],
                                                              "stream": c["stream"], "interacted": c["interacted"]})
    out.traces += len(cases)
    out.extra["tag_cases"] = len(cases)
    out.samples.append({k: cases[5][k] for k in ("text", "cfg", "outcome", "stream")})
    # (3) scripted world: tag-restricted generic and named captures along call paths (raw mode reports real names)
    P.run_world(out, tier, seed, gen_case, PLAN, salt=41,
                rule="TLC: tags.py transcription = set semantics for every tag expression of <= 4 names over {A,B,C}; heap model of "
                     "tag objects (TagHeap: & creates, never mutates; in-place variant rejected); real expression histories over a "
                     "heap of tag objects with every object's denotation read back after every operation; generated "
                     "functions with random tag sets (string form and object form, shuffled / repeated members) on parameters, "
                     "annotated assignments and return x selectors $x:@T, *:@T, v:@T, $x, f($x:@T) > c, $f:@T > c, with the set of "
                     "instrumented variables observed; scripted-world call trees with tag-restricted generic/named captures",
                sample_filter=lambda t: sum(len(e["dlv"]) for e in t["events"]) > 2)


replay = P.replay_world
