"""C02 - a probe's stream is exactly the binding history of its focus variable (scripted-world part)."""
import itertools

from .. import scripts, sel as S, worldcheck as W, worldprops as P

PLAN = {"quick": [("probe", 200), ("overlay", 80)], "thorough": [("probe", 4000), ("overlay", 1500)]}
NAMES = ["a", "b", "c", "i", "p"]
CHOICES = [(f, ctx) for f in NAMES for k in (0, 1, 2) for ctx in itertools.combinations([n for n in NAMES if n != f], k)]


def gen_case(rng, cid, mode):
    sc = scripts.gen_script(rng, maxlen=rng.randint(6, 45), maxdepth=4, p_call=rng.choice([0.15, 0.35]), reads=False,
                            fns=rng.choice(["f", "f", "fg", "fg"]))
    fns = P.script_fns(sc)
    hs = []
    for (foc, ctx) in rng.sample(CHOICES, 5):
        fn = rng.choice(fns)
        caps = [S.cap(v, v, 0) for v in ctx] + [S.cap(foc, foc, 1)]
        rng.shuffle(caps)
        hs.append(W.norm_handler({"kind": "imm", "sel": S.node(fn, caps)}))
    # the same question along a call path: context variables of the inner call of 'outer > inner(ctx) > v' come from
    # that very call (repeated and recursive inner calls under one outer call)
    for _ in range(2):
        hs.append(W.norm_handler({"kind": "imm", "sel": S.gen_sel(rng, fns=fns, names=("a", "b", "p", "c", "i"), maxdepth=rng.choice([2, 3]))}))
    return {"id": cid, "script": sc, "arg": rng.randint(0, 50), "handlers": hs}


def run_static(out, tier, seed):
    """skeleton programs: the stream of every (focus, context) choice against the twin's binding history"""
    import random
    from .. import progcheck as PC, skeletons as SK
    from . import c01
    rng = random.Random(seed * 7919 + 29)
    if tier == "quick":
        progs = SK.family_f1(quick=True) + SK.family_f6() + [SK.random_program(rng, 7000 + i) for i in range(60)]
        opts = {"maxiter": 2, "maxraise": 1, "kinds": ["tuple", "list"], "maxpaths": 6, "seed": seed, "npairs": 4,
                "variants": ["singles", "all", "generic", "pairs"], "gen_drive": False}
    else:
        progs = SK.family_f1(quick=False) + SK.family_f6() + [SK.random_program(rng, 7000 + i) for i in range(1500)]
        opts = {"maxiter": 2, "maxraise": 1, "kinds": ["tuple", "list", "str"], "maxpaths": 40, "seed": seed, "npairs": 8,
                "variants": ["singles", "all", "generic", "pairs"], "gen_drive": True}
    out.clause_filter = lambda sig: sig["clause"] == "Stream"
    traces, fails, nruns = PC.run_family(out, progs, opts, "C02")
    out.extra.update({"programs": len(progs), "paths": len(traces), "probe_runs": nruns})


def run_stmts(out, tier, seed):
    """the for / with shapes of XformStmts run for real: the events delivered are the model's GivenText (TraceXformStmts)"""
    import json
    import os
    import random
    from concurrent.futures import ThreadPoolExecutor
    from .. import core
    cfg = open(os.path.join(core.SPECS, "XformStmtsMC.cfg")).read().replace("POSTCONDITION Report", "INVARIANT Export\nPOSTCONDITION Report")
    r = core.run_tlc("XformStmtsMC", cfg, workers=1, timeout=900)
    out.add_tlc("XformStmtsMC[export]", r)
    cases = [{"id": i, "st": json.loads(t[1]), "I": json.loads(t[2])} for i, t in enumerate(r.tagged("STMT"))]
    rng = random.Random(seed * 7919 + 307)
    if tier == "quick" and len(cases) > 1500:
        cases = rng.sample(cases, 1500)
    work = core.scratch("c02s-")
    chunks = [cases[i::8] for i in range(8)]

    def one(ix):
        jin, jout = os.path.join(work, f"sc{ix}.json"), os.path.join(work, f"so{ix}.json")
        json.dump(chunks[ix], open(jin, "w"))
        core.run_driver("harness.drivers.stmt_driver", [jin, jout, work], timeout=1800)
        return core.run_tlc("TraceXformStmts", "TraceXformStmts.cfg", env={"TRACE_FILE": jout}, workers=1, timeout=900), json.load(open(jout))
    with ThreadPoolExecutor(max_workers=8) as ex:
        res = list(ex.map(one, range(len(chunks))))
    for i, (t, runs) in enumerate(res):
        out.add_tlc(f"TraceXformStmts[{i}]", t)
        by = {c["id"]: c for c in runs}
        for tup in t.tagged("FAIL"):
            c = by[tup[1]]
            out.judge({"clause": tup[2], "stmt": c["st"]["s"], "family": "FS2"}, {"case": c, "at": tup[3]})
    out.traces += len(cases)
    out.extra["xformstmts_shapes_run"] = len(cases)


def run_models(out, tier, seed):
    """M level of the rewrite: TLC over every small statement shape (Xform: assignments, XformStmts: the other binding
    statements); the Stream law holds exactly where no difference class applies, and the classes are the known ones"""
    from .. import core, xformcheck as XC
    r = core.run_tlc("XformStmtsMC", "XformStmtsMC.cfg", workers=1, timeout=900)
    out.add_tlc("XformStmtsMC", r)
    if r.violated:
        out.judge({"clause": "XformStmtsModel"}, {"tlc": r.out[-2500:]})
    sigs = sorted(t[1] for t in r.tagged("SIGNATURE"))
    out.extra["xformstmts_signatures"] = sigs
    run_stmts(out, tier, seed)
    unexpected = [x for x in sigs if x not in ("DeclaredOnlySupplied", "RepeatedNameFinalValue")]
    if unexpected:
        out.drift.append(f"XformStmts derives difference classes that are not recorded findings: {unexpected}")
    # the same laws on the mechanism as it was before the repairs: every repaired difference class must show up (the laws discriminate)
    r0 = core.run_tlc("XformStmtsMC", "XformStmtsOld.cfg", workers=1, timeout=900)
    out.add_tlc("XformStmtsMC[before the repairs]", r0)
    old = {t[1] for t in r0.tagged("SIGNATURE")}
    missing = {"LoopTargetNotImplemented", "WithTargetNoEvent", "FallOffNoValue", "MatchCaptureTakenForGlobal"} - old
    if missing:
        out.drift.append(f"XformStmts: the pre-repair mechanism no longer shows {sorted(missing)} (vacuous laws?)")
    # the assignment shapes for real: single-variable probes, the stream against Python's binding history (TraceXformMech)
    XC.run(out, tier, seed, {"Stream"}, ["singles"], 120 if tier == "quick" else 0)


def run(out, tier, seed):
    run_static(out, tier, seed)
    run_models(out, tier, seed)
    out.clause_filter = None
    P.run_world(out, tier, seed, gen_case, PLAN, salt=19,
                rule="random binding sequences (parameter, plain, augmented, annotated, loop target) with loops, early exits "
                     "and exceptions x every ordered choice (focus, <=2 context variables) among a,b,c,i,p; one event per "
                     "binding of the focus variable with the context at its latest values, omitted when unbound",
                sample_filter=lambda t: sum(len(e["dlv"]) for e in t["events"]) > 4)


def replay(out, path):
    """statement shapes (TraceXformStmts) through the statement driver, everything else through the scripted world"""
    import json
    import os
    from .. import core
    doc = json.load(open(path))
    if doc.get("signature", {}).get("family") != "FS2":
        return P.replay_world(out, path)
    c = doc["case"]["case"]
    work = core.scratch("c02r-")
    jin, jout = os.path.join(work, "in.json"), os.path.join(work, "out.json")
    json.dump([{"id": c["id"], "st": c["st"], "I": c["I"]}], open(jin, "w"))
    core.run_driver("harness.drivers.stmt_driver", [jin, jout, work])
    t = core.run_tlc("TraceXformStmts", "TraceXformStmts.cfg", env={"TRACE_FILE": jout}, workers=1, timeout=600)
    out.add_tlc("TraceXformStmts[replay]", t)
    run = json.load(open(jout))[0]
    for tup in t.tagged("FAIL"):
        out.judge({"clause": tup[2], "stmt": run["st"]["s"], "family": "FS2"}, {"case": run, "at": tup[3]})
    out.traces += 1
    out.samples.append({"replayed": path, "events": run["events"], "stores": run["stores"]})
