"""C14 - absolute references keep resolving to the same function across probing."""
import json
import random

from .. import core, lifecheck as L

PLACES = ["top", "meth", "inner_meth", "made", "deco", "way", "lid_open"]


def to_ops(hist):
    ops, stack, n = [], [], 0
    for h in hist:
        if h[0] == "act":
            n += 1
            ops.append(["act", f"q{n}", h[1]])
            stack.append(f"q{n}")
        elif h[0] == "deact":
            if stack:
                ops.append(["deact", stack.pop()])
        elif h[0] == "call":
            ops.append(["call", len(ops) + 1])
        else:
            ops.append(["resolve"])
    return ops


def run(out, tier, seed):
    rng = random.Random(seed * 7919 + 47)
    work = core.scratch("c14-")
    maxops = 5 if tier == "quick" else 7
    r = core.run_tlc("Registry", f"SPECIFICATION Spec\nCONSTANTS MaxOps = {maxops}  HelperDiscard = TRUE\nINVARIANT AlwaysResolves\nINVARIANT Export\nCHECK_DEADLOCK FALSE\n",
                     workers=1, timeout=900)
    out.add_tlc(f"Registry[{maxops}]", r)
    if r.violated:
        out.judge({"clause": "RegistryModel"}, {"tlc": r.out[-2000:]})
    hists = [t[1] for t in r.tagged("HIST")]
    cases = []
    for h in hists:
        places = PLACES if tier == "thorough" else [rng.choice(PLACES)]
        for pl in places:
            cases.append({"id": len(cases), "place": pl, "src": "tlc-exhaustive", "ops": to_ops(h)})
    for pl in PLACES:
        for _ in range(20 if tier == "quick" else 300):
            n = rng.randint(6, 16)
            h = []
            depth = 0
            for _i in range(n):
                x = rng.random()
                if x < 0.3:
                    h.append(["act", rng.choice(["name", "ref"])])
                    depth += 1
                elif x < 0.45 and depth:
                    h.append(["deact"])
                    depth -= 1
                elif x < 0.75:
                    h.append(["call"])
                else:
                    h.append(["resolve"])
            cases.append({"id": len(cases), "place": pl, "src": "random", "ops": to_ops(h)})
    traces = L.run_histories(cases, work, driver="harness.drivers.ref_driver", par=6)
    fails, results = L.validate(traces, work, spec="TraceRefs", par=8)
    for i, rr in enumerate(results):
        out.add_tlc(f"TraceRefs[{i}]", rr)
    out.traces += len(traces)
    by = {c["id"]: c for c in cases}
    for tid, items in fails.items():
        for tag, rest in items:
            f = rest[0] if tag == "FAIL" else {"clause": "Incomplete", "why": "", "nactive": 0}
            out.judge({"clause": f["clause"], "why": f["why"], "while_active": f["nactive"] > 0},
                      {"case": by[tid], "verdict": [tag, rest]})
    out.extra.update({"histories_exhaustive": len(hists), "placements": PLACES, "cases": len(cases),
                      "rule": "every history of <= N operations {activate by name, activate by reference, deactivate, call, resolve} "
                              "enumerated by TLC on the registry model, replayed on five placements (module function, method, method of "
                              "a nested class, function defined in a function, decorated function), plus random longer histories; "
                              "identity of select(refstring(fn)).element.name and per-probe streams validated by TraceRefs"})
    out.samples.append({"place": cases[0]["place"], "ops": cases[0]["ops"]})


def replay(out, path):
    case = json.load(open(path))["case"]["case"]
    work = core.scratch("c14r-")
    traces = L.run_histories([case], work, driver="harness.drivers.ref_driver", par=1)
    fails, results = L.validate(traces, work, spec="TraceRefs", par=1)
    for rr in results:
        out.add_tlc("TraceRefs[replay]", rr)
    out.traces += 1
    for tid, items in fails.items():
        for tag, rest in items:
            f = rest[0] if tag == "FAIL" else {"clause": "Incomplete", "why": "", "nactive": 0}
            out.judge({"clause": f["clause"], "why": f["why"], "while_active": f["nactive"] > 0}, {"case": case, "verdict": [tag, rest]})
    out.samples.append({"replayed": path})
