"""C14 - absolute references keep resolving to the same function across probing."""
import json
import random

from .. import core, lifecheck as L

PLACES = ["top", "meth", "inner_meth", "made", "deco", "way", "lid_open"]


def to_ops(hist):
    ops, stack, n = [], [], 0
    for h in hist:
        if h[0] == "act":
            n += 1
            ops.append(["act", f"q{n}", h[1]])
            stack.append(f"q{n}")
        elif h[0] == "deact":
            if stack:
                ops.append(["deact", stack.pop()])
        elif h[0] == "call":
            ops.append(["call", len(ops) + 1])
        else:
            ops.append(["resolve"])
    return ops


NEIGHBOURS = {"top": ["meth", "way"], "meth": ["Outer.Inner.meth", "top", "make.inner"], "inner_meth": ["Outer.meth", "top"],
              "made": ["make", "Outer.meth", "top"], "deco": ["top", "make"], "way": ["top", "Outer.meth"], "lid_open": ["top", "make.inner"]}
PLACE_OF = {"top": "top", "Outer.meth": "meth", "Outer.Inner.meth": "inner_meth", "make.inner": "made"}


def paths_model(out, maxops, mech, probed, name):
    pr = ", ".join('"' + x + '"' for x in probed)
    cfg = (f'INIT InitX\nNEXT Next\nCONSTANTS MaxOps = {maxops} Mech = "{mech}" Probed = {{{pr}}}\n'
           "CONSTRAINT Collect\nINVARIANT Export\nPOSTCONDITION Report\nCHECK_DEADLOCK FALSE\n")
    r = core.run_tlc("RegistryPaths", cfg, workers=1, timeout=1200)
    out.add_tlc(name, r)
    return {t[1]: t[2] for t in r.tagged("SIGNATURE")}, [t[1] for t in r.tagged("HIST")]


def paths_to_case(hist, place_key):
    """a RegistryPaths history (act/deact of several functions) as ops for target `place_key`: the target's own probes are
    act/deact by name, the others neighbour probes; every reference is resolved after every operation"""
    ops, stacks, n = [], {}, 0
    for h in hist:
        g = h[1]
        if h[0] == "act":
            n += 1
            pid = f"q{n}"
            stacks.setdefault(g, []).append(pid)
            ops.append(["act", pid, "name"] if g == place_key else ["nact", pid, g])
        else:
            pid = stacks[g].pop()
            ops.append(["deact", pid] if g == place_key else ["ndeact", pid])
        ops.append(["resolve"])
    return ops


def run(out, tier, seed):
    rng = random.Random(seed * 7919 + 47)
    work = core.scratch("c14-")
    maxops = 5 if tier == "quick" else 7
    r = core.run_tlc("Registry", f"SPECIFICATION Spec\nCONSTANTS MaxOps = {maxops}  HelperDiscard = TRUE\nINVARIANT AlwaysResolves\nINVARIANT Export\nCHECK_DEADLOCK FALSE\n",
                     workers=1, timeout=900)
    out.add_tlc(f"Registry[{maxops}]", r)
    if r.violated:
        out.judge({"clause": "RegistryModel"}, {"tlc": r.out[-2000:]})
    hists = [t[1] for t in r.tagged("HIST")]
    cases = []
    # several functions of one module (namesakes, nesting): the mechanism of the tree, the seeded reordering and a
    # registry discipline under which the A level holds; every history of the tree's mechanism is replayed
    probed = ["top", "Outer.meth", "make", "make.inner"]
    pm = 4 if tier == "quick" else 5
    sigs, phists = paths_model(out, pm, "tree", probed, f"RegistryPaths[tree,{pm}]")
    sigs_none, _ = paths_model(out, pm, "none", probed, f"RegistryPaths[none,{pm}]")
    sigs_seed, _ = paths_model(out, pm, "assim-first", probed, f"RegistryPaths[assim-first,{pm}]")
    if sigs_none:
        out.drift.append(f"RegistryPaths: the A level is violated even when nothing is registered: {sorted(sigs_none)}")
    if sigs_seed == sigs and all(sigs_seed[k] == sigs[k] for k in sigs):
        out.drift.append("RegistryPaths: the reordered mechanism is indistinguishable from the tree's")
    if tier == "quick":
        # every history in which a function and the function defined inside it are both probed (what is compiled when decides
        # which code the nested path points at), a sample of the others
        def nest(h):
            return {"make", "make.inner"} <= {x[1] for x in h}
        both = [h for h in phists if nest(h)]
        rest = [h for h in phists if not nest(h)]
        phists = both + rng.sample(rest, min(len(rest), 80))
    for h in phists:
        target = rng.choice(probed) if tier == "quick" else None
        for tk in ([target] if target else probed):
            if tk in PLACE_OF:
                cases.append({"id": len(cases), "place": PLACE_OF[tk], "src": "tlc-paths", "ops": paths_to_case(h, tk)})
    for sname, w in sigs.items():
        tk = next((g for g in (x[1] for x in w) if g in PLACE_OF), "top")
        cases.append({"id": len(cases), "place": PLACE_OF[tk], "src": "witness:" + sname, "ops": paths_to_case(w, tk)})
    for h in hists:
        places = PLACES if tier == "thorough" else [rng.choice(PLACES)]
        for pl in places:
            cases.append({"id": len(cases), "place": pl, "src": "tlc-exhaustive", "ops": to_ops(h)})
    for pl in PLACES:
        for _ in range(20 if tier == "quick" else 300):
            n = rng.randint(6, 16)
            h = []
            depth = 0
            for _i in range(n):
                x = rng.random()
                if x < 0.3:
                    h.append(["act", rng.choice(["name", "ref"])])
                    depth += 1
                elif x < 0.45 and depth:
                    h.append(["deact"])
                    depth -= 1
                elif x < 0.75:
                    h.append(["call"])
                else:
                    h.append(["resolve"])
            ops = to_ops(h)
            # probes on other functions of the module in between (half of the random histories)
            if rng.random() < 0.5:
                k, open_ = 0, []
                for pos in sorted(rng.sample(range(len(ops) + 1), min(len(ops) + 1, rng.randint(1, 4))), reverse=True):
                    k += 1
                    if open_ and rng.random() < 0.4:
                        ops.insert(pos, ["ndeact", open_.pop()])
                    else:
                        ops.insert(pos, ["nact", f"n{k}", rng.choice(NEIGHBOURS[pl])])
                # insertion went from the back: pair every ndeact with an earlier nact, drop the ones that come too early
                seen, fixed = [], []
                for o in ops:
                    if o[0] == "nact":
                        seen.append(o[1])
                        fixed.append(o)
                    elif o[0] == "ndeact":
                        if seen:
                            fixed.append(["ndeact", seen.pop()])
                    else:
                        fixed.append(o)
                ops = fixed
            cases.append({"id": len(cases), "place": pl, "src": "random", "ops": ops})
    cap = 2500 if tier == "quick" else 12000
    if len(cases) > cap:
        # every case loads a fresh copy of the reference world: the number replayed is bounded (TLC has all of them on the model)
        out.extra["cases_enumerated"] = len(cases)
        keep = [c for c in cases if c["src"].startswith("witness")]
        rest = [c for c in cases if not c["src"].startswith("witness")]
        cases = keep + rng.sample(rest, cap - len(keep))
        for i, c in enumerate(cases):
            c["id"] = i
    # refused activations on the same function in between (random histories on functions that bind a variable of their own)
    for c in cases:
        if c["src"] == "random" and c["place"] not in ("way", "lid_open") and rng.random() < 0.4:
            for pos in sorted(rng.sample(range(len(c["ops"]) + 1), min(len(c["ops"]) + 1, rng.randint(1, 2))), reverse=True):
                c["ops"].insert(pos, ["badact"])
                c["ops"].insert(pos + 1, ["resolve"])
    # a fifth of the random histories run on a function that was tooled in place beforehand
    for c in cases:
        if c["src"] == "random" and rng.random() < 0.2:
            c["inplace"] = True
    # few cases per interpreter: codefind's registry keeps every module copy alive, resolving gets slower as the heap grows
    traces = L.run_histories(cases, work, driver="harness.drivers.ref_driver", par=14, maxchunk=250)
    fails, results = L.validate(traces, work, spec="TraceRefs", par=8)
    for i, rr in enumerate(results):
        out.add_tlc(f"TraceRefs[{i}]", rr)
    out.traces += len(traces)
    by = {c["id"]: c for c in cases}
    seen_why = set()
    for tid, items in fails.items():
        for tag, rest in items:
            f = rest[0] if tag == "FAIL" else {"clause": "Incomplete", "why": "", "nactive": 0}
            if f["clause"] == "Drift":
                out.drift.append({"case": tid, "function": f["why"], "note": "the registry model predicts a wrong answer, the code answers right"})
                continue
            seen_why.add(f["why"])
            out.judge({"clause": f["clause"], "why": f["why"], "while_active": f["nactive"] > 0},
                      {"case": by[tid], "verdict": [tag, rest]})
    for sname in sigs:
        if "mech:" + sname not in seen_why:
            out.drift.append(f"RegistryPaths signature {sname} did not reproduce in the real registry")
    out.extra.update({"histories_exhaustive": len(hists), "placements": PLACES, "cases": len(cases),
                      "paths_model_signatures": sorted(sigs), "paths_histories": len(phists),
                      "rule": "RegistryPaths: every history of <= N activations/deactivations over four functions of one module "
                              "(method and module-level namesake, closure and enclosing function) for three registry mechanisms, all "
                              "histories replayed with every reference of the module resolved after every step and compared with the "
                              "mechanism (RegistryOps) by TraceRefs; every history of <= N operations {activate by name, activate by reference, deactivate, call, resolve} "
                              "enumerated by TLC on the registry model, replayed on five placements (module function, method, method of "
                              "a nested class, function defined in a function, decorated function), plus random longer histories; "
                              "identity of select(refstring(fn)).element.name and per-probe streams validated by TraceRefs"})
    out.samples.append({"place": cases[0]["place"], "ops": cases[0]["ops"]})


def replay(out, path):
    case = json.load(open(path))["case"]["case"]
    work = core.scratch("c14r-")
    traces = L.run_histories([case], work, driver="harness.drivers.ref_driver", par=1)
    fails, results = L.validate(traces, work, spec="TraceRefs", par=1)
    for rr in results:
        out.add_tlc("TraceRefs[replay]", rr)
    out.traces += 1
    for tid, items in fails.items():
        for tag, rest in items:
            f = rest[0] if tag == "FAIL" else {"clause": "Incomplete", "why": "", "nactive": 0}
            out.judge({"clause": f["clause"], "why": f["why"], "while_active": f["nactive"] > 0}, {"case": case, "verdict": [tag, rest]})
    out.samples.append({"replayed": path})
