"""C16 - declared-but-unset variables are supplied from outside or fail loudly; the absent marker never escapes."""
import json

from .. import core, progcheck as PC, skeletons as SK


def run(out, tier, seed):
    progs = SK.family_f16()
    opts = {"maxiter": 2, "maxraise": 0 if tier == "quick" else 1, "kinds": ["tuple"], "maxpaths": 12 if tier == "quick" else 60,
            "seed": seed, "variants": ["tooled", "inplace", "singles", "all", "generic", "pairs", "supply"], "gen_drive": False}
    work = core.scratch("c16-")
    traces = PC.run_jobs(progs, opts, work, par=6)
    fails, results = PC.validate(traces, work, spec="TraceAbsent")
    for i, r in enumerate(results):
        out.add_tlc(f"TraceAbsent[{i}]", r)
    nruns = sum(len(t["runs"]) for t in traces)
    out.traces += nruns
    by = {t["id"]: t for t in traces}
    for tid, items in fails.items():
        t = by[tid]
        for tag, rest in items:
            if tag != "FAIL":
                out.judge({"clause": "Incomplete"}, {"pid": t["pid"]})
                continue
            f = rest[0]
            r = t["runs"][f["run"] - 1]
            sig = {"clause": f["clause"], "a": f["a"] if f["clause"] in ("Supplied", "FailsThere", "Activation") else "",
                   "b": f["b"] if f["clause"] == "AbsentEscapes" else "", "form": t["form"], "mode": r["mode"]}
            out.judge(sig, {"program": next(p for p in progs if p["id"] == t["pid"]), "script": t["script"], "run": r, "verdict": f})
    # the absent marker must not show up in the scripted-world traces either: covered by C04/C06 data-flow checks
    out.extra.update({"programs": len(progs), "paths": len(traces), "runs": nruns,
                      "rule": "family F16: functions with one or two declared-only variables (top level, loop, branch, try) and "
                              "conditionally used undefined globals; every path; instrumentation none/some/all (tooled, in-place, "
                              "probes on each variable, all, $x, pairs); the declared variable supplied by Overlay.tweaking, by an "
                              "overriding probe, by a declining rewrite, or not at all; judged by TraceAbsent"})
    t = traces[0]
    out.samples.append({"form": t["form"], "script": t["script"], "runs": [(r["mode"], r["result"]) for r in t["runs"][:6]]})


def replay(out, path):
    run(out, "quick", 0)
    out.samples.append({"replayed": path, "note": "family F16 is small and is re-run completely"})
