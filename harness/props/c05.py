"""C05 - probes deliver exactly-once while active and leave no trace once deactivated."""
import json
import random

from .. import core, lifecheck as L

ALL = ["p1", "p2", "p3", "p4", "p5", "p6", "p7", "p8", "p9", "p10", "p11", "p12", "p13", "p14", "p15", "p16", "p17", "bad", "bad2", "bad3", "bad4"]
PRETOOLED = ["p1", "p2", "q2", "p4", "p5", "p3", "p8"]      # histories on functions tooled in place beforehand; q2 is a plain overlay


def with_how(rng, hist):
    ops = []
    for h in hist:
        if h[0] == "deact":
            ops.append(["deact", h[1], rng.choice(["normal", "exc", "explicit", "derived", "genexit", "twice"])])
        else:
            ops.append(list(h))
    return ops


def random_history(rng, n, ALL=ALL, lifo=False):
    status = {p: "new" for p in ALL}
    ops = []
    for k in range(n):
        r = rng.random()
        act = [p for p in ALL if status[p] == "active"]
        act.sort(key=lambda p: min(i for i, o in enumerate(ops) if o[:2] == ["act", p]))
        if r < 0.3:
            p = rng.choice(ALL)
            if p == "q2" and status[p] != "new":
                continue               # a plain overlay may be entered again; only Probe objects refuse that
            ops.append(["act", p])
            if status[p] == "new" and not p.startswith("bad"):
                status[p] = "active"
        elif r < 0.5 and act:
            # mostly LIFO, sometimes any order (global probes)
            p = act[-1] if lifo or rng.random() < 0.6 else rng.choice(act)
            ops.append(["deact", p, rng.choice(["normal", "exc", "explicit", "derived", "genexit", "twice"])])
            status[p] = "done"
        else:
            ops.append(["callno" if rng.random() < 0.1 else "call", rng.choice(["f", "g", "f", "g", "h1", "h2"]), rng.choice([k + 1, 12])])
    return ops


def run(out, tier, seed):
    rng = random.Random(seed * 7919 + 5)
    work = core.scratch("c05-")
    cases = []
    sigs_all = {}
    if tier == "quick":
        plans = [(5, ["p1", "p3", "p4", "bad"]), (4, ["p6", "p1", "p4"]), (4, ["p7", "p8", "p9"]), (4, ["p10", "p1", "p4"]), (4, ["bad3", "p1", "p4"]), (4, ["p11", "p1", "p8"]), (5, ["p12", "p13"]), (4, ["p14", "p15", "p1"]), (4, ["p2", "p4", "p1"], True), (4, ["p16", "p4", "bad4"]), (4, ["p17", "p4", "p1"]), (4, ["p9", "p16"])]
    else:
        plans = [(6, ["p1", "p3", "p4", "bad"]), (5, ["p2", "p5", "p4", "bad2"]), (5, ["p1", "p2", "p3", "p4", "p5"]),
                 (5, ["p6", "p1", "p4", "bad2"]), (5, ["p7", "p8", "p9", "p1"]), (5, ["p10", "p1", "p2", "bad"]), (5, ["bad3", "p1", "p3", "p4"]), (5, ["p11", "p1", "p7", "p8"]), (6, ["p12", "p13"]), (5, ["p12", "p13", "p1"]), (5, ["p14", "p15", "p1", "p2"]), (5, ["p2", "p4", "p1", "p14"], True), (5, ["p16", "p4", "bad4", "p1"]), (5, ["p17", "p4", "p6", "p1"]), (5, ["p9", "p16", "p1"])]
    for plan in plans:
        maxops, uni, incall = plan[0], plan[1], len(plan) > 2
        hists, sigs = L.explore(out, maxops, uni, f"LifeMechMC[{maxops},{'+'.join(uni)}{',in-call' if incall else ''}]", incall=incall)
        for s, w in sigs.items():
            sigs_all.setdefault(s, w)
        for h in hists:
            cases.append({"id": len(cases), "src": "tlc-exhaustive", "ops": with_how(rng, h)})
    for s, w in sigs_all.items():
        cases.append({"id": len(cases), "src": "witness:" + s, "ops": with_how(rng, w)})
    nrand = 300 if tier == "quick" else 3000
    for _ in range(nrand):
        cases.append({"id": len(cases), "src": "random", "ops": random_history(rng, rng.randint(6, 30))})
    # a probe deactivated from inside a call of the function it looks at (where f calls g), among probes on f's and g's own
    # variables; with-block order otherwise
    INCALL = ["p1", "p2", "p4", "p5", "p8", "p14"]
    for _ in range(60 if tier == "quick" else 1200):
        ops = random_history(rng, rng.randint(5, 20), INCALL, lifo=True)
        status, order = {}, []
        out_ops = []
        for o in ops:
            if o[0] == "act" and status.get(o[1]) is None:
                status[o[1]] = "active"
                order.append(o[1])
            if o[0] == "deact":
                order.remove(o[1])
                status[o[1]] = "done"
                if rng.random() < 0.5:
                    o = ["calld", rng.randint(1, 30), o[1]]
            out_ops.append(o)
        cases.append({"id": len(cases), "src": "incall", "ops": out_ops})
    # a probe entered and left from inside a call that other probes (also call-path and total ones) are observing
    for _ in range(60 if tier == "quick" else 1200):
        ops = random_history(rng, rng.randint(4, 16), ["p1", "p3", "p6", "p16", "p9", "p2"], lifo=True)
        for q in rng.sample(["p4", "p5"], rng.randint(1, 2)):
            ops.insert(rng.randrange(len(ops) + 1), ["calle", rng.choice([3, 7, 20]), q])
        cases.append({"id": len(cases), "src": "enter-in-call", "ops": ops})
    traces = L.run_histories(cases, work)
    # the same kind of histories on functions that were tooled in place beforehand, with a plain overlay (no tooling of its
    # own) among the probes: selective tooling by probing() must not starve it (with-block order only)
    pre = [{"id": len(cases) + i, "src": "pretooled", "pretooled": True, "ops": random_history(rng, rng.randint(6, 24), PRETOOLED, lifo=True)}
           for i in range(80 if tier == "quick" else 1500)]
    cases += pre
    traces += L.run_histories(pre, work, par=4)
    fails, results = L.validate(traces, work)
    for i, r in enumerate(results):
        out.add_tlc(f"TraceLife[{i}]", r)
    out.traces += len(traces)
    by_id = {c["id"]: c for c in cases}
    for tid, items in fails.items():
        for tag, rest in items:
            if tag == "FAIL":
                f = rest[0]
                sig = {"clause": f["clause"], "nonlifo": f["nonlifo"], "mech": f["mech"], "incall": f.get("incall", False)}
                if f.get("lraised") and f["clause"] == "Receives:lost":
                    sig.update({"lraised": True, "who": f["who"]})
            else:
                sig = {"clause": "Incomplete"}
            out.judge(sig, {"case": by_id[tid], "verdict": [tag, rest]})
    # model-derived signatures must reproduce in the real code (else the model has drifted)
    srcfail = {by_id[t]["src"] for t in fails}
    for s in sigs_all:
        if "witness:" + s not in srcfail:
            out.drift.append(f"signature {s} predicted by LifeMech did not reproduce")
    out.extra.update({"histories_exhaustive": sum(1 for c in cases if c["src"] == "tlc-exhaustive"),
                      "histories_random": nrand, "model_signatures": sorted(sigs_all),
                      "steps": sum(len(t["steps"]) for t in traces),
                      "rule": "all histories of <= N operations {activate, deactivate (normal/exception/explicit), call f, call g} "
                              "over small probe universes enumerated by TLC on LifeMech, every one replayed with real Probe "
                              "objects; plus random histories up to 30 operations over 7 probes incl. two refused selectors"})
    out.samples.append({"ops": cases[0]["ops"], "verdict": "accepted" if cases[0]["id"] not in fails else "rejected"})
    nl = next((c for c in cases if c["id"] in fails), None)
    if nl:
        out.samples.append({"ops": nl["ops"], "verdict": fails[nl["id"]][0]})


def replay(out, path):
    case = json.load(open(path))["case"]["case"]
    work = core.scratch("c05r-")
    traces = L.run_histories([case], work, par=1)
    fails, results = L.validate(traces, work, par=1)
    for r in results:
        out.add_tlc("TraceLife[replay]", r)
    out.traces += 1
    for tid, items in fails.items():
        for tag, rest in items:
            f = rest[0] if tag == "FAIL" else {"clause": "Incomplete", "nonlifo": False, "mech": False}
            sig = {"clause": f["clause"], "nonlifo": f.get("nonlifo"), "mech": f.get("mech"), "incall": f.get("incall", False)}
            if f.get("lraised") and f["clause"] == "Receives:lost":
                sig.update({"lraised": True, "who": f["who"]})
            out.judge(sig, {"case": case, "verdict": [tag, rest]})
    out.samples.append({"replayed": path, "fails": len(fails)})
