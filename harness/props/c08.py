"""C08 - overlays and probes in concurrent threads do not interfere."""
import json
import os
from concurrent.futures import ThreadPoolExecutor

from .. import core


def mech_cfg(threads, locked=True, publish=True):
    ts = ", ".join(f'"{t}"' for t in threads)
    return (f"INIT InitX\nNEXT Next\nCONSTANTS Threads = {{{ts}}}  Locked = {'TRUE' if locked else 'FALSE'}  "
            f"PublishFirst = {'TRUE' if publish else 'FALSE'}\nCONSTRAINT Collect\nPOSTCONDITION Report\nVIEW View\nCHECK_DEADLOCK FALSE\n")


def explore(work, name, threads, explore, nslices, par=14, watch="tooling"):
    """run the schedule exploration in nslices processes (each regenerates the same plan list and takes a slice)"""
    probe = os.path.join(work, f"{name}_probe.json")
    json.dump({"threads": threads, "explore": explore, "slice": [0, 0], "watch": watch}, open(probe, "w"))
    pout = os.path.join(work, f"{name}_probe_out.json")
    info = json.loads(core.run_driver("harness.drivers.thread_driver", [probe, pout]).strip().splitlines()[-1])
    total = info["plans"]
    step = max(1, (total + nslices - 1) // nslices)

    def one(i):
        jin = os.path.join(work, f"{name}_{i}.json")
        jout = os.path.join(work, f"{name}_{i}_out.json")
        json.dump({"threads": threads, "explore": explore, "slice": [i * step, min(total, (i + 1) * step)], "first_id": i * 1000000, "watch": watch},
                  open(jin, "w"))
        core.run_driver("harness.drivers.thread_driver", [jin, jout], timeout=3000)
        return json.load(open(jout))
    with ThreadPoolExecutor(max_workers=par) as ex:
        res = list(ex.map(one, range((total + step - 1) // step)))
    allruns = [r for rs in res for r in rs]
    for r in allruns:
        r["watch"] = watch
    return allruns, info


def run(out, tier, seed):
    work = core.scratch("c08-")
    # (1) mechanism model |= ThreadsAbs: every interleaving of 2 threads (and 3 threads in thorough) at load/store granularity
    r = core.run_tlc("ThreadsMech", mech_cfg(["a", "b"]), workers=1, timeout=1200)
    out.add_tlc("ThreadsMech[2 threads, locked, publish-first]", r)
    sigs = [t[1] for t in r.tagged("SIGNATURE")]
    for s in sigs:
        out.judge({"clause": "Model:" + s}, {"tlc": "ThreadsMech with the current mechanism admits " + s})
    if tier == "thorough":
        r3 = core.run_tlc("ThreadsMech", mech_cfg(["a", "b", "c"]), workers=1, timeout=3000)
        out.add_tlc("ThreadsMech[3 threads]", r3)
        for t in r3.tagged("SIGNATURE"):
            out.judge({"clause": "Model:" + t[1]}, {"tlc": "3 threads: " + t[1]})
    # the historical mechanism (no lock, code stored first) must still show its four signatures: the model is not vacuous
    rh = core.run_tlc("ThreadsMech", mech_cfg(["a", "b"], False, False), workers=1, timeout=1200)
    out.add_tlc("ThreadsMech[2 threads, pinned mechanism]", rh)
    hist_sigs = sorted(t[1] for t in rh.tagged("SIGNATURE"))
    if len(hist_sigs) < 4:
        out.drift.append(f"historical mechanism shows only {hist_sigs}")
    # (2) systematic exploration of real schedules
    runs = []
    if tier == "quick":
        rs, info = explore(work, "ab2", ["A", "B"], {"bound": 2, "stride": 3, "stride2": 5, "seed": seed}, 14)
        runs += rs
        rs, info3 = explore(work, "abc1", ["A", "B", "C"], {"bound": 1, "stride": 4}, 6)
        runs += rs
        # a named capture in one thread, a tag-only wildcard in the other
        rs, _ = explore(work, "at1", ["A", "T"], {"bound": 1, "stride": 3}, 6)
        runs += rs
        # one thread supplies a declared-only variable through an overriding probe, the other looks at another variable
        rs, _ = explore(work, "as1", ["A", "S"], {"bound": 1, "stride": 3}, 6)
        runs += rs
        # two threads with the same (interned) selector, preempted anywhere in the tooling AND in the call path
        rs, info_c = explore(work, "de1", ["D", "E"], {"bound": 1, "stride": 2}, 8, watch="call")
        runs += rs
    else:
        rs, info = explore(work, "ab2", ["A", "B"], {"bound": 2, "stride": 1, "stride2": 1}, 28)
        runs += rs
        rs, info3 = explore(work, "abc2", ["A", "B", "C"], {"bound": 2, "stride": 2, "stride2": 6}, 28)
        runs += rs
        rs, info_c = explore(work, "de2", ["D", "E"], {"bound": 2, "stride": 1, "stride2": 7}, 28, watch="call")
        runs += rs
        rs, _ = explore(work, "ab1c", ["A", "B"], {"bound": 1, "stride": 1}, 14, watch="call")
        runs += rs
        rs, _ = explore(work, "at2", ["A", "T"], {"bound": 2, "stride": 1, "stride2": 5}, 14)
        runs += rs
        rs, _ = explore(work, "as2", ["A", "S"], {"bound": 2, "stride": 1, "stride2": 5}, 14)
        runs += rs
    for i, rr in enumerate(runs):
        rr["id"] = i
    chunks = [runs[i:i + 1500] for i in range(0, len(runs), 1500)]

    def val(ix):
        p = os.path.join(work, f"tv{ix}.json")
        json.dump(chunks[ix], open(p, "w"))
        return core.run_tlc("TraceThreads", "TraceThreads.cfg", env={"TRACE_FILE": p}, workers=2, timeout=1200)
    with ThreadPoolExecutor(max_workers=8) as ex:
        results = list(ex.map(val, range(len(chunks))))
    for i, rr in enumerate(results):
        out.add_tlc(f"TraceThreads[{i}]", rr)
        for tup in rr.tagged("FAIL"):
            run_ = runs[tup[1]]
            where = sorted({s[1].split(":")[0] for s in run_["stops"]})
            out.judge({"clause": tup[2], "who": tup[3], "preempted_in": ",".join(where)[:120]},
                      {"plan": run_["plan"], "stops": run_["stops"], "threads": run_["threads"], "final": run_["final"], "watch": run_.get("watch", "tooling")})
    out.traces += len(runs)
    out.extra.update({"schedules": len(runs), "schedule_points_per_thread": info["base_counts"], "schedule_points_with_call_path": info_c["base_counts"], "model_signatures_current": sigs,
                      "model_signatures_pinned_mechanism": hist_sigs, "lock_handoffs": sum(r_["lock_blocks"] for r_ in runs),
                      "rule": "TLC: all interleavings of 2 (thorough: 3) threads through the mechanism model at load/store granularity; "
                              "real code: every schedule with <= 2 preemptions of 2 threads (quick: strided) and <= 1 (thorough: 2, "
                              "strided) preemptions of 3 threads, preemptions placed at every attribute/subscript load or store inside "
                              "the tooling code - and, for two threads that use the very same selector text, also inside the call path "
                              "(handler matching, per-selector caches, interaction) - (sys.monitoring baton scheduler, cooperative stand-in for the tooling lock); per-thread "
                              "events, return values and the final state judged by TraceThreads"})
    out.samples.append({"plan": runs[5]["plan"], "stops": runs[5]["stops"], "threads": runs[5]["threads"], "final": runs[5]["final"]})


def replay(out, path):
    case = json.load(open(path))["case"]
    work = core.scratch("c08r-")
    jin, jout = os.path.join(work, "r.json"), os.path.join(work, "ro.json")
    tids = sorted(case["threads"])
    json.dump({"threads": tids, "schedules": [case["plan"]], "watch": case.get("watch", "tooling")}, open(jin, "w"))
    core.run_driver("harness.drivers.thread_driver", [jin, jout])
    runs = json.load(open(jout))
    r = core.run_tlc("TraceThreads", "TraceThreads.cfg", env={"TRACE_FILE": jout}, workers=1, timeout=600)
    out.add_tlc("TraceThreads[replay]", r)
    for tup in r.tagged("FAIL"):
        out.judge({"clause": tup[2], "who": tup[3]}, {"plan": case["plan"]})
    out.traces += len(runs)
    out.samples.append({"replayed": path})
