"""Parser checks shared by C15 and C18."""
import json
import os
from concurrent.futures import ThreadPoolExecutor

from . import core


def run_cases(tier, seed, work, witnesses=()):
    path = os.path.join(work, "pcases.json")
    core.run_driver("harness.drivers.parse_driver", [tier, seed, path, json.dumps(list(witnesses))])
    return json.load(open(path))


def validate(out, cases, work, chunk=8000, par=10):
    chunks = [cases[i:i + chunk] for i in range(0, len(cases), chunk)]

    def one(ix):
        p = os.path.join(work, f"pv{ix}.json")
        json.dump(chunks[ix], open(p, "w"))
        return core.run_tlc("TraceParser", "TraceParser.cfg", env={"TRACE_FILE": p}, workers=2, timeout=1800)
    with ThreadPoolExecutor(max_workers=par) as ex:
        results = list(ex.map(one, range(len(chunks))))
    fails = []
    for i, r in enumerate(results):
        out.add_tlc(f"TraceParser[{i}]", r)
        for tup in r.tagged("FAIL"):
            fails.append((tup[1], tup[2], tup[3]))
    return fails


FULL = ["f", "x", "*", "#value", "@T", ">", "(", ")", "!", "!!", "$", ":", "=", "~", ",", "as", "", "[", "]", "'s'", "&", "!!!"]
CORE = ["f", "x", ">", "(", ")", "!", "!!", "$", ":", "=", ",", "as", "*"]


def model_check(out, maxlen, alphabet, name):
    a = ", ".join('"' + x + '"' for x in alphabet)
    cfg = (f"INIT InitX\nNEXT Next\nCONSTANTS MaxLen = {maxlen}\n  Alphabet = {{{a}}}\n"
           "CONSTRAINT Collect\nINVARIANT Terminates\nPOSTCONDITION Report\nCHECK_DEADLOCK FALSE\n")
    r = core.run_tlc("ParserMC", cfg, workers=1, timeout=3000)
    out.add_tlc(name, r)
    if r.violated:
        out.judge({"clause": "Termination"}, {"tlc": r.out[-1500:]})
    return {t[1]: t[2] for t in r.tagged("SIGNATURE")}


def witness_text(toks):
    return "".join((" as " if t == "as" else (" " if t == "" else t)) for t in toks)
