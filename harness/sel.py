"""Selector trees as JSON (the form the TLA+ specs read) and their rendering as ptera selector strings.

node: {"fn": "f", "fcat": "", "caps": [cap...], "kids": [node...]}
cap:  {"name": "a" | "" (generic), "key": "k1", "tag": 0|1|2, "cat": "" | "T",
       "cond": {"k": "none"|"eq"|"lt"|"gt"|"lte"|"gte"|"every"|"between", "n": int, "s": int, "e": int, "hasE": bool}}
"""
NOCOND = {"k": "none", "n": 0, "s": 0, "e": 0, "hasE": False}


def cap(name, key=None, tag=0, cat="", cond=None):
    return {"name": name, "key": key or name, "tag": tag, "cat": cat, "cond": dict(cond or NOCOND)}


def node(fn, caps=(), kids=(), fcat=""):
    return {"fn": fn, "fcat": fcat, "caps": list(caps), "kids": list(kids)}


def cond(k, n=0, s=0, e=0, hasE=False):
    return {"k": k, "n": n, "s": s, "e": e, "hasE": hasE}


def cond_str(c):
    k = c["k"]
    if k == "none":
        return ""
    if k == "eq":
        return f"={300000 - c['n'] if 300000 < c['n'] < 400000 else c['n']}"       # NegBase + n stands for -n
    if k in ("lt", "gt", "lte", "gte"):
        return f"~{k}({c['n']})"
    if k == "every":
        if c["hasE"]:
            return f"~every({c['n']}, {c['s']}, {c['e']})"
        return f"~every({c['n']}, {c['s']})"
    if k == "between":
        return f"~between({c['s']}, {c['e']})"
    raise ValueError(k)


def cap_str(c):
    mark = "!" * c["tag"]
    if c["name"] == "":
        body = f"${c['key']}"
    elif c["key"] == c["name"]:
        body = c["name"]
    else:
        body = f"{c['name']} as {c['key']}"
    cat = f":@{c['cat']}" if c["cat"] else ""
    return f"{mark}{body}{cat}{cond_str(c['cond'])}"


def sel_str(n):
    parts = [cap_str(c) for c in n["caps"]] + [sel_str(k) for k in n["kids"]]
    head = n["fn"] + (f":@{n['fcat']}" if n.get("fcat") else "")
    return f"{head}({', '.join(parts)})"


def has_focus(n):
    return any(c["tag"] == 1 for c in n["caps"]) or any(has_focus(k) for k in n["kids"])


def all_keys(n):
    s = {c["key"] for c in n["caps"]}
    for k in n["kids"]:
        s |= all_keys(k)
    return s


def strip_focus(n):
    return {"fn": n["fn"], "fcat": n.get("fcat", ""), "caps": [dict(c, tag=0) for c in n["caps"]],
            "kids": [strip_focus(k) for k in n["kids"]]}


def depth(n):
    return 1 + max([depth(k) for k in n["kids"]], default=0)


def gen_sel(rng, fns="fgh", names=("a", "b", "p"), focus=True, maxdepth=3, conds=False, generic=0.0,
            cats=0.0, metas=0.0, values=range(0, 40)):
    """Random selector tree from the documented grammar (focus path <= maxdepth, off-path kids, aliases)."""
    ctr = [0]

    def key():
        ctr[0] += 1
        return f"k{ctr[0]}"

    def mkcond():
        if not conds or rng.random() > 0.35:
            return None
        k = rng.choice(["eq", "lt", "gte", "gt", "lte", "every", "between"])
        vs = sorted(rng.sample(list(values), 2))
        if k == "every":
            return cond("every", n=rng.randint(1, 4), s=vs[0], e=vs[1], hasE=rng.random() < 0.5)
        if k == "between":
            return cond("between", s=vs[0], e=vs[1])
        return cond(k, n=vs[0])

    def mkcap(tag):
        r = rng.random()
        if r < generic:
            cat = rng.choice(["T", "P"]) if rng.random() < 0.6 else ""
            # a generic capture takes every variable, whatever its value is: only equality is meaningful for all of them
            cd = mkcond()
            return cap("", key(), tag, cat=cat, cond=cd if cd and cd["k"] == "eq" else None)
        if r < generic + metas and tag:
            return cap(rng.choice(["#enter", "#exit", "#value", "#error", "#loop_i", "#endloop_i"]), key(), tag)
        nm = rng.choice(list(names))
        cat = ""
        if rng.random() < cats:
            cat = {"p": "P", "c": "T"}.get(nm, "")
        return cap(nm, key(), tag, cat=cat, cond=mkcond())

    def mk(d, foc):
        n = node(rng.choice(fns))
        used = set()
        for _ in range(rng.randint(0, 2)):
            c = mkcap(0)
            if (c["name"], c["cat"]) in used:
                continue
            used.add((c["name"], c["cat"]))
            n["caps"].append(c)
        if rng.random() < 0.4 and d < maxdepth:
            n["kids"].append(mk(d + 1, False))
        if foc:
            if d >= maxdepth or rng.random() < 0.4:
                n["caps"].append(mkcap(1))
            else:
                n["kids"].insert(rng.randint(0, len(n["kids"])), mk(d + 1, True))
        if not n["caps"] and not n["kids"]:
            n["caps"].append(cap(rng.choice(["a", "b"]), key(), 0))
        return n

    return mk(1, focus)
