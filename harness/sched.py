"""Deterministic baton-passing thread scheduler on sys.monitoring INSTRUCTION events.

Only the thread holding the baton runs.  A *schedule point* is an instruction of a watched code object whose
opcode reads or writes shared state (attribute / subscript loads and stores).  A plan is a list of segments
[tid, k]: let thread tid execute k more schedule points (k = -1: run it to completion).  After the plan,
remaining threads are run to completion in name order.
"""
import dis
import sys
import threading
import types

mon = sys.monitoring
TOOL = mon.DEBUGGER_ID
POINT_OPS = {"LOAD_ATTR", "STORE_ATTR", "STORE_SUBSCR", "BINARY_SUBSCR", "DELETE_SUBSCR", "CONTAINS_OP", "STORE_GLOBAL"}


def codes_of(obj):
    out = []
    for v in vars(obj).values():
        if isinstance(v, types.FunctionType):
            out.append(v.__code__)
    return out


class CoopRLock:
    """Drop-in for ptera's tooling RLock under the baton scheduler: a thread that would block hands the baton
    back to the scheduler, which runs the owner until it releases."""

    def __init__(self, sched):
        self.sched = sched
        self.owner = None
        self.depth = 0
        self.real = threading.RLock()

    def acquire(self, blocking=True, timeout=-1):
        tid = self.sched.tid_of.get(threading.get_ident())
        if tid is None:
            return self.real.acquire(blocking, timeout)
        while self.owner not in (None, tid):
            self.sched.blocked(tid, self.owner)
        self.owner = tid
        self.depth += 1
        return True

    def release(self):
        tid = self.sched.tid_of.get(threading.get_ident())
        if tid is None:
            return self.real.release()
        self.depth -= 1
        if self.depth == 0:
            self.owner = None
            self.sched.released(tid)

    __enter__ = acquire

    def __exit__(self, *a):
        self.release()


class Scheduler:
    def __init__(self, watch, entry_files=()):
        self.watch = list(watch)
        self.instr = {c: {i.offset: i for i in dis.get_instructions(c)} for c in self.watch}
        try:
            mon.use_tool_id(TOOL, "verif-sched")
        except ValueError:
            pass
        for c in self.watch:
            mon.set_local_events(TOOL, c, mon.events.INSTRUCTION)
        mon.register_callback(TOOL, mon.events.INSTRUCTION, self.on_instr)
        # the entry of a call of the shared world function is a schedule point too: the frame exists, its first instruction
        # (which loads what the installed variant refers to) has not run yet
        self.entry_files = tuple(entry_files)
        if self.entry_files:
            mon.register_callback(TOOL, mon.events.PY_START, self.on_start)
            mon.set_events(TOOL, mon.events.PY_START)
        self.tid_of = {}
        self.reset()

    def reset(self):
        self.budget = {}
        self.count = {}
        self.sems = {}
        self.done = set()
        self.trace = []          # (tid, point name) for every schedule point executed
        self.stops = []          # point names at which a thread was preempted
        self.main_sem = threading.Semaphore(0)
        self.reason = None
        self.yield_on_release = None
        self.lock_blocks = 0

    def blocked(self, tid, owner):
        self.reason = ("blocked", tid, owner)
        self.lock_blocks += 1
        self.main_sem.release()
        self.sems[tid].acquire()

    def released(self, tid):
        if self.yield_on_release == tid:
            self.yield_on_release = None
            self.reason = ("released", tid)
            self.main_sem.release()
            self.sems[tid].acquire()

    def point_name(self, code, ins):
        arg = ins.argval if isinstance(ins.argval, str) else ""
        return f"{code.co_qualname}:{ins.opname}:{arg}"

    def on_start(self, code, offset):
        if not code.co_filename.endswith(self.entry_files) or code.co_name == "<module>":
            # (ptera executes the definition of a variant as module-level code of the same file: that is tooling, not a call)
            return mon.DISABLE
        tid = self.tid_of.get(threading.get_ident())
        if tid is None:
            return
        self.point(tid, f"{code.co_name}:PY_START:")

    def on_instr(self, code, offset):
        tid = self.tid_of.get(threading.get_ident())
        if tid is None:
            return
        ins = self.instr[code].get(offset)
        if ins is None or ins.opname not in POINT_OPS:
            return
        self.point(tid, self.point_name(code, ins))

    def point(self, tid, name):
        # the point is about to execute: pause *before* it when the budget is exhausted
        # budget 0: pause before this point; budget -2: run on and pause before the next entry of a function of the world
        if self.budget.get(tid, -1) == 0 or (self.budget.get(tid, -1) == -2 and name.endswith(":PY_START:")):
            self.stops.append([tid, name])
            self.reason = ("stop", tid)
            self.main_sem.release()
            self.sems[tid].acquire()
        if self.budget.get(tid, -1) > 0:
            self.budget[tid] -= 1
        self.count[tid] = self.count.get(tid, 0) + 1
        self.trace.append((tid, name))

    def run(self, bodies, plan):
        self.reset()
        threads = {}
        for tid, body in bodies.items():
            self.sems[tid] = threading.Semaphore(0)
            self.budget[tid] = 0

            def wrap(tid=tid, body=body):
                self.tid_of[threading.get_ident()] = tid
                self.sems[tid].acquire()
                try:
                    body()
                finally:
                    self.done.add(tid)
                    self.reason = ("done", tid)
                    self.tid_of.pop(threading.get_ident(), None)
                    self.main_sem.release()
            threads[tid] = threading.Thread(target=wrap, daemon=True)
            threads[tid].start()
        segs = [list(s) for s in plan] + [[tid, -1] for tid in sorted(bodies)]
        def resume(t):
            self.sems[t].release()
            if not self.main_sem.acquire(timeout=60):
                raise RuntimeError(f"scheduler stuck running {t}")

        for tid, k in segs:
            if tid in self.done:
                continue
            self.budget[tid] = k
            resume(tid)
            while self.reason and self.reason[0] == "blocked" and self.reason[1] == tid:
                owner = self.reason[2]
                self.yield_on_release = owner
                self.budget[owner] = -1
                resume(owner)               # until it releases the lock (or finishes)
                self.budget[owner] = 0
                if tid in self.done:
                    break
                resume(tid)
        for t in threads.values():
            t.join(timeout=10)
        return dict(self.count)

    def close(self):
        mon.register_callback(TOOL, mon.events.INSTRUCTION, None)
        if self.entry_files:
            mon.set_events(TOOL, 0)
            mon.register_callback(TOOL, mon.events.PY_START, None)
        for c in self.watch:
            mon.set_local_events(TOOL, c, 0)
        mon.free_tool_id(TOOL)
