"""check <ID> --tier quick|thorough [--replay PATH]  (MANIFEST quick_cmd / thorough_cmd)."""
import argparse
import importlib
import os
import sys
import traceback

from . import core


def main():
    ap = argparse.ArgumentParser()
    ap.add_argument("prop")
    ap.add_argument("--tier", default=os.environ.get("VERIF_TIER", "quick"))
    ap.add_argument("--replay", default=None)
    a = ap.parse_args()
    seed = int(os.environ.get("VERIF_SEED", "0") or 0)
    tier = a.tier if a.tier in ("quick", "thorough") else "quick"
    try:
        mod = importlib.import_module(f"harness.props.{a.prop.lower()}")
        out = core.Outcome(a.prop, tier, seed)
        if a.replay:
            mod.replay(out, a.replay)
        else:
            mod.run(out, tier, seed)
        rc = out.finish()
    except core.MachineryError as ex:
        print(f"MACHINERY-FAILURE property={a.prop}: {ex}", file=sys.stderr)
        rc = 2
    except Exception:
        traceback.print_exc()
        print(f"MACHINERY-FAILURE property={a.prop}", file=sys.stderr)
        rc = 2
    finally:
        core.cleanup()
    sys.exit(rc)


if __name__ == "__main__":
    main()
