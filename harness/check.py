"""check <ID> --tier quick|thorough [--replay PATH]  (MANIFEST quick_cmd / thorough_cmd)."""
import argparse
import importlib
import os
import sys
import traceback

from . import core


COMMON = ["bounded exploration: what TLC enumerates and what the drivers run is finite (bounds in coverage.rule / tlc_runs)",
          "Python's own semantics (the twin programs, symtable, giving / reactivex, codefind) are trusted as the reference",
          "an observation is accepted as a known deviation only through an open entry of known_findings.json"]
ASSUME = {
    "C08": ["threads are interleaved by a baton scheduler at attribute / subscript loads and stores of the watched ptera code and at the "
            "entry of the shared function; ptera's tooling lock is replaced by a cooperative stand-in with the same exclusion",
            "preemption-bounded: at most two preemptions per schedule"],
    "C14": ["every history runs on a fresh copy of the reference world (own file, shifted by a distinct number of lines)"],
    "C09": ["drop of a generator = del + gc.collect() (CPython reference counting)"],
    "C01": ["side effects are what the rt2 helpers log (evaluation sites, iteration protocol, stores into objects, calls)"],
    "C05": ["the mechanism state read back (instrument_count, captures, handler_pairs, global_probes) uses ptera internals of this tree"],
}


def main():
    ap = argparse.ArgumentParser()
    ap.add_argument("prop")
    ap.add_argument("--tier", default=os.environ.get("VERIF_TIER", "quick"))
    ap.add_argument("--replay", default=None)
    a = ap.parse_args()
    seed = int(os.environ.get("VERIF_SEED", "0") or 0)
    tier = a.tier if a.tier in ("quick", "thorough") else "quick"
    try:
        mod = importlib.import_module(f"harness.props.{a.prop.lower()}")
        out = core.Outcome(a.prop, tier, seed)
        if a.replay:
            mod.replay(out, a.replay)
        else:
            mod.run(out, tier, seed)
        out.assumptions += [x for x in COMMON + ASSUME.get(a.prop, []) if x not in out.assumptions]
        rc = out.finish()
    except core.MachineryError as ex:
        print(f"MACHINERY-FAILURE property={a.prop}: {ex}", file=sys.stderr)
        rc = 2
    except Exception:
        traceback.print_exc()
        print(f"MACHINERY-FAILURE property={a.prop}", file=sys.stderr)
        rc = 2
    finally:
        core.cleanup()
    sys.exit(rc)


if __name__ == "__main__":
    main()
