"""Regenerate MANIFEST.json from the table below (python -m harness.manifest)."""
import json
import os

VERIF = os.path.dirname(os.path.dirname(os.path.abspath(__file__)))

CLAIMED = {
    "C08": ("TLA+ ThreadsMech |= ThreadsAbs (TLC, all interleavings) + systematic schedule exploration of real threads, TraceThreads",
            "the mechanism model is checked for every interleaving of 2-3 threads at load/store granularity, and every schedule "
            "with up to two preemptions placed at the attribute/subscript loads and stores of the tooling code is executed "
            "with real threads under a deterministic scheduler; per-thread events, returns and the final state are judged by TLC"),
    "C10": ("TLA+ TraceNames (activation outcome vs Python's symtable) + TLC validation of real activation attempts",
            "for hand-written functions binding/reading names in every placement and for every generated IR program, every "
            "identifier (symtable names, nested-scope names, fresh names, meta-variables) is tried with a real probe; outcome, "
            "recorded provenance and the state after a refusal are judged by TLC against Python's own scoping"),
    "C11": ("TLA+ Tags + TagHeap (algebra A = M, objects with identity, TLC exhaustive) + TraceTags / TracePtera validation of real tag selectors",
            "the tag algebra of tags.py is model-checked against set semantics (pure and over a heap of objects: & never mutates); "
            "real expression histories are read back object by object; generated functions with random tag sets and "
            "every tag selector form are run for real and judged by TLC (captured bindings, reported names, refusals, "
            "instrumented-variable set, function-position tags)"),
    "C13": ("TLA+ Recv (identity rule vs equality/interning mechanism): TLC enumerates targets x call sequences, TraceRecv",
            "every probed object/class and call sequence over a population of plain, subclass, value-equal and unhashable "
            "instances is enumerated by TLC, executed with real method selectors and judged by TraceRecv"),
    "C14": ("TLA+ Registry / RegistryPaths models: TLC enumerates histories, each replayed on real placements, TraceRefs runs the mechanism along the trace",
            "every bounded history of activate-by-name / by-reference / deactivate / call / resolve on one function, and of "
            "activations over several functions of one module (namesakes, nesting) under three registry mechanisms, is enumerated "
            "by TLC and replayed on real functions; at every resolve step every reference of the module is resolved; identity of "
            "the resolved function, stream equality and agreement with the mechanism model are validated"),
    "C16": ("TLA+ TraceAbsent (Supplied / FailsThere / NoAbsent / undefined globals) + TLC validation of IR family F16",
            "programs with declared-only variables and conditionally used undefined globals are run on every path under every "
            "instrumentation and supply configuration; TLC judges where the call fails, what value later reads see, and that the "
            "absent marker appears nowhere"),
    "C09": ("TLA+ GenMech (token machine) |= A level: TLC enumerates histories, each replayed with real generators, TraceGen; TraceStaged, TraceRelay on nested generators",
            "all overlay/generator histories up to a bound are enumerated by TLC, executed with real generators, and the "
            "handlers seen by the driver and the events per overlay are validated after every step"),
    "C15": ("TLA+ Parser transcription + ParserLaws (TLC exhaustive over operand substitutions) + TraceParser on real parse()",
            "the documented equivalences are model-checked on the parser transcription for every operand substitution of a "
            "bounded space, and the same substitutions plus random re-spacings are parsed by the real code and judged by TLC "
            "(equal outcome, identical object, lexer model agreement)"),
    "C17": ("TLA+ stream machine: StreamGen enumerates histories, each replayed with real giving pipelines, TraceStream",
            "every history of stage attachment / activation / calls / deactivation / re-activation up to a bound is replayed "
            "with a real Probe; per-stage outputs, completions and clean-up are validated after each step"),
    "C18": ("TLA+ Parser transcription: ParserMC (all token strings up to a bound, NoInternal + termination) + TraceParser",
            "TLC runs every bounded token string through the transcription collecting internal-error signatures; the real "
            "parse()/select()/probing() outcomes of all short strings, grammar mutations and witnesses are judged by TLC"),
    "C01": ("TLA+ TraceXform (refinement under hiding) + TLC validation of plain/twin/instrumented runs of IR programs",
            "for every program of the IR families and every control-flow path found, the instrumented runs (tooled, in-place, "
            "non-overriding probes on variable subsets) are compared by TLC with the untouched function: same observable "
            "helper log, side effects, yields and result"),
    "C05": ("TLA+ LifeAbs/LifeMech: TLC enumerates all histories, each replayed with real probes and validated by TraceLife",
            "all activation/deactivation/call histories up to a bound are enumerated by TLC on the mechanism model, executed "
            "with real Probe objects and validated step by step against the A-level clauses (Receives, Silent, Quiescent, "
            "NoStaleHandlers, ActiveInstalled, refusal leaves no trace)"),
    "C02": ("TLA+ PteraAbs + TLC trace validation of scripted-world runs; Xform / XformStmts (M level of the rewrite) model-checked and run for real (TraceXformMech, TraceXformStmts)",
            "each real run (random binding sequences x every focus/context choice) is validated by TLC against the A-level "
            "definition of a focused probe's stream (one event per binding of the focus, context at latest values)"),
    "C03": ("TLA+ PteraAbs (Embeddings/Own/Sub) + TLC trace validation",
            "each real run of random call trees x focused call-path selectors is validated by TLC: per causing event the bag "
            "of delivered records must equal the bag of embeddings of the selector path into the live stack"),
    "C04": ("TLA+ PteraAbs OverrideResult + TLC trace validation",
            "stored values, later reads, call results and observers' events of overridden runs are validated by TLC against "
            "the substitution semantics (last activated non-declining override wins, RHS consumed once, declined untouched)"),
    "C06": ("TLA+ Envelope (state machine of one activation, TLC over all configurations, TraceEnvelope / TraceEnvelopePair on real activations) + meta-event bracket grammar in TracePtera / ProgSem + TLC trace validation",
            "TLC derives from each environment event the meta-events owed (#enter first, #value/#error, #endloop on every way "
            "out, #exit last) and compares them, in order, with the real deliveries"),
    "C07": ("TLA+ PteraAbs TotalRecs + TLC trace validation",
            "records of focus-free selectors are compared by TLC with the one complete record owed per ended outermost call"),
    "C12": ("TLA+ Tools (A = M on a box, TLC exhaustive) + TLC validation of the real predicates and of conditioned selectors",
            "the code's formula is model-checked against the stated meaning on an integer box, the real predicates are "
            "evaluated on the same box and judged by TLC, and conditioned selectors are validated end to end"),
}

PENDING = {
}


def main():
    props = [json.loads(l) for l in open(os.path.join(VERIF, "properties.jsonl"))]
    man = {
        "version": 1,
        "setup_cmd": "bin/setup",
        "hooks": {"guard": "PTERA_VERIF",
                  "enable": "no source hooks exist: checks observe ptera through its public entry points and sys.monitoring; "
                            "the harness exports PTERA_VERIF=1 for completeness",
                  "baseline_off_cmd": "cd /repo && /venv/bin/python -m pytest -ra -q -p no:cacheprovider --timeout=900 "
                                      "--continue-on-collection-errors",
                  "source_commits": [], "add_only": True},
        "engines": [{"name": "tlc", "path": "specs/", "serves_properties": sorted(CLAIMED),
                     "kind_free_text": "explicit TLA+ specifications (A level: observable behaviour; M level: mechanism "
                                       "transcription) checked with TLC; real executions validated as traces; TLC "
                                       "behaviours replayed in the real code"}],
        "checks": [],
        "not_applicable": [],
        "notes": "bin/check <ID> --tier quick|thorough; known findings in known_findings.json; see DESIGN.md",
    }
    for p in props:
        pid = p["id"]
        if pid in CLAIMED:
            tech, text = CLAIMED[pid]
            man["checks"].append({
                "property_id": pid,
                "quick_cmd": f"bin/check {pid} --tier quick",
                "thorough_cmd": f"bin/check {pid} --tier thorough",
                "evidence_file": f"evidence/{pid}.json",
                "replay_cmd_template": f"bin/check {pid} --replay {{path}}",
                "engine": "tlc",
                "level_claimed": {"category": "model_checking", "text": text, "design_ref": "DESIGN.md sections 2-4"},
                "level_note": "trusted base: scripted-world helpers and recorder, selector/IR printers, TLC; results hold "
                              "for the bounds and samples recorded in the evidence file",
                "technique": tech})
        else:
            man["not_applicable"].append({"property_id": pid,
                                          "reason": PENDING.get(pid, "check under construction (not claimed yet)")})
    json.dump(man, open(os.path.join(VERIF, "MANIFEST.json"), "w"), indent=1)
    print("claimed", sorted(CLAIMED))


if __name__ == "__main__":
    main()
