"""Corruption self-test: the trace specifications must REJECT a recorded real trace after one field is altered
or one event dropped, at the corrupted position, and accept the unaltered one.  Demonstrates that the
specifications are bound to what the implementation logs (not vacuous).  Exit 0 = all corruptions rejected.

usage: python -m harness.selftest
"""
import copy
import json
import os
import random
import sys

from . import core, scripts, sel as S, worldcheck as W, lifecheck as L, progcheck as PC, skeletons as SK


def ptera_world(work):
    rng = random.Random(12345)
    cases = []
    for i in range(30):
        sc = scripts.gen_script(rng, maxlen=25, maxdepth=3, fns="fg")
        hs = [W.norm_handler({"kind": "imm", "sel": S.node("f", [S.cap("a", "a", 1)])}),
              W.norm_handler({"kind": "imm", "sel": S.node("f", [S.cap("#enter", "e", 1), S.cap("#exit", "x", 2)])}),
              W.norm_handler({"kind": "tot", "sel": S.node("f", [S.cap("a", "a", 0)])})]
        cases.append({"id": i, "script": sc, "arg": 0, "handlers": hs})
    traces = W.run_cases([("overlay", cases)], work, par=1)
    good = [t for t in traces if sum(len(e["dlv"]) for e in t["events"]) >= 3]
    results = []
    # (a) unaltered
    fails, _ = W.validate(good[:5], work, par=1)
    fails = {k: v for k, v in fails.items() if not all(r[0]["clause"] in ("FallOffValue",) for tag, r in v if tag == "FAIL")}
    results.append(("TracePtera accepts recorded traces", not fails))
    # (b) flip one delivered value
    t = copy.deepcopy(good[0])
    ev = next(i for i, e in enumerate(t["events"]) if e["dlv"] and any(d["h"] == 1 for d in e["dlv"]))
    d = next(d for d in t["events"][ev]["dlv"] if d["h"] == 1)
    d["rec"][0][1] += 1000
    fails, _ = W.validate([t], work, par=1)
    hit = any(r[0]["line"] == ev + 1 and r[0]["clause"] == "Deliveries" for tag, r in fails.get(t["id"], []) if tag == "FAIL")
    results.append(("TracePtera rejects an altered delivered value at that event", hit))
    # (c) drop one delivery
    t = copy.deepcopy(good[1])
    ev = next(i for i, e in enumerate(t["events"]) if e["dlv"])
    t["events"][ev]["dlv"].pop(0)
    fails, _ = W.validate([t], work, par=1)
    hit = any(r[0]["line"] == ev + 1 for tag, r in fails.get(t["id"], []) if tag == "FAIL")
    results.append(("TracePtera rejects a dropped delivery at that event", hit))
    # (d) duplicate a delivery
    t = copy.deepcopy(good[2])
    ev = next(i for i, e in enumerate(t["events"]) if e["dlv"])
    t["events"][ev]["dlv"].append(copy.deepcopy(t["events"][ev]["dlv"][0]))
    fails, _ = W.validate([t], work, par=1)
    hit = any(r[0]["line"] == ev + 1 for tag, r in fails.get(t["id"], []) if tag == "FAIL")
    results.append(("TracePtera rejects a duplicated delivery", hit))
    return results


def life(work):
    ops = [["act", "p1"], ["call", "f", 3], ["act", "p4"], ["call", "f", 4], ["deact", "p4", "normal"], ["call", "g", 1], ["deact", "p1", "normal"], ["call", "f", 6]]
    traces = L.run_histories([{"id": 1, "ops": ops}], work, par=1)
    results = []
    fails, _ = L.validate(traces, work, par=1)
    results.append(("TraceLife accepts a LIFO history", not fails))
    t = copy.deepcopy(traces)
    t[0]["steps"][1]["obs"]["recv"]["p1"] = []          # an event not received
    for s in t[0]["steps"][2:]:
        s["obs"]["recv"]["p1"] = s["obs"]["recv"]["p1"][1:]
    fails, _ = L.validate(t, work, par=1)
    results.append(("TraceLife rejects a lost event", any(r[0]["clause"] == "Receives:lost" for tag, r in fails.get(1, []) if tag == "FAIL")))
    t = copy.deepcopy(traces)
    t[0]["steps"][-1]["obs"]["orig"]["f"] = False       # code not restored
    fails, _ = L.validate(t, work, par=1)
    results.append(("TraceLife rejects a function left instrumented", any(r[0]["clause"] == "Quiescent:code" for tag, r in fails.get(1, []) if tag == "FAIL")))
    return results


def xform(work):
    progs = [p for p in SK.family_f1(quick=True) if p["form"] in ("name", "chained") and p["ctx"] in ("top", "for")]
    opts = {"maxiter": 2, "maxraise": 1, "kinds": ["tuple"], "maxpaths": 3, "seed": 0, "variants": ["tooled", "singles"], "gen_drive": False}
    traces = PC.run_jobs(progs, opts, work, par=1)
    results = []
    fails, _ = PC.validate(traces, work, par=1)
    results.append(("TraceXform accepts transparent runs", not fails))
    t = copy.deepcopy(traces[:1])
    t[0]["runs"][0]["log"][0][-1] = "12345"               # an observable helper value altered
    fails, _ = PC.validate(t, work, par=1)
    results.append(("TraceXform rejects an altered observable event", any(r[0]["clause"] == "Log" for tag, r in fails.get(t[0]["id"], []) if tag == "FAIL")))
    t = copy.deepcopy(traces[:1])
    run = next(r for r in t[0]["runs"] if r["mode"] == "probe" and r["streams"] and r["streams"][0])
    run["streams"][0].pop()                                # a binding event not delivered
    fails, _ = PC.validate(t, work, par=1)
    results.append(("TraceXform rejects a missing stream event", any(r[0]["clause"] == "Stream" for tag, r in fails.get(t[0]["id"], []) if tag == "FAIL")))
    return results


def gens(work):
    ops = [["enter", "o1"], ["enter", "o2"], ["new", "g1"], ["next", "g1"], ["callg", 5], ["close", "g1"], ["exit", "o2"], ["exit", "o1"]]
    traces = L.run_histories([{"id": 1, "mode": "overlay", "ops": ops}], work, driver="harness.drivers.gen_driver", par=1)
    results = []
    fails, _ = L.validate(traces, work, spec="TraceGen", par=1)
    known = all(r[0]["mech"] for tag, r in fails.get(1, []) if tag == "FAIL")
    results.append(("TraceGen explains a real generator history (A level or token model)", known))
    t = copy.deepcopy(traces)
    for st in t[0]["steps"][3:]:
        st["recv"]["o2"] = st["recv"]["o2"][1:]            # the event of the g call inside the generator, lost
    fails, _ = L.validate(t, work, spec="TraceGen", par=1)
    results.append(("TraceGen rejects a lost event as unexplained", any(not r[0]["mech"] for tag, r in fails.get(1, []) if tag == "FAIL")))
    return results


def refs(work):
    ops = [["act", "q1", "name"], ["resolve"], ["nact", "n1", "top"], ["resolve"], ["ndeact", "n1"], ["deact", "q1"], ["resolve"]]
    traces = L.run_histories([{"id": 1, "place": "made", "ops": ops}], work, driver="harness.drivers.ref_driver", par=1)
    results = []
    fails, _ = L.validate(traces, work, spec="TraceRefs", par=1)
    explained = all(str(r[0]["why"]).startswith("mech:") for tag, r in fails.get(1, []) if tag == "FAIL")
    results.append(("TraceRefs explains a real history (A level or registry mechanism)", explained))
    t = copy.deepcopy(traces)
    t[0]["steps"][3]["all"]["top"] = "way"                 # a reference answering with another function
    fails, _ = L.validate(t, work, spec="TraceRefs", par=1)
    results.append(("TraceRefs rejects a wrong answer the mechanism does not predict",
                    any(r[0]["clause"] == "Resolve" and r[0]["why"] == "other" for tag, r in fails.get(1, []) if tag == "FAIL")))
    return results


def xmech(work):
    from . import xformcheck as XC
    st = {"s": "assign", "e": {"k": 1, "e": "ls"}, "targets": [{"t": "tuple", "elts": [{"t": "name", "v": "a"}, {"t": "attr", "v": "o", "a": "p"}]}]}
    progs = XC.programs([st])
    opts = {"maxiter": 1, "maxraise": 0, "kinds": ["tuple"], "maxpaths": 1, "seed": 0, "variants": ["tooled", "singles"], "gen_drive": False,
            "with_prog": True}
    traces = PC.run_jobs(progs, opts, work, par=1)
    results = []
    fails, _ = PC.validate(traces, work, spec="TraceXformMech", par=1)
    results.append(("TraceXformMech: the real rewrite does what Xform.tla says", not fails))
    t = copy.deepcopy(traces)
    log = t[0]["runs"][0]["log"]
    i = next(k for k, e in enumerate(log) if e[0] == "siter")
    log[i] = ["sgetitem", log[i][1], "0"]                  # as if the value had been indexed instead of iterated
    fails, _ = PC.validate(t, work, spec="TraceXformMech", par=1)
    results.append(("TraceXformMech rejects an action sequence the model does not predict",
                    any(r[0]["clause"] == "Log" and not r[0]["mech"] for tag, r in fails.get(t[0]["id"], []) if tag == "FAIL")))
    return results


def staged(work):
    """C09, the caller's side: a wrong stage in one reported step must be rejected"""
    cases = [{"id": 1, "form": "capture", "k": 0, "stages": [[1, 1], [2, 1], [3, 1]], "mode": "probe", "deep": False},
             {"id": 2, "form": "cond", "k": 2, "stages": [[0, 1], [2, 1], [2, 1], [3, 1]], "mode": "probe", "deep": True}]
    cin, cout = os.path.join(work, "sg.json"), os.path.join(work, "st.json")
    json.dump(cases, open(cin, "w"))
    core.run_driver("harness.drivers.staged_driver", [cin, cout])
    r = core.run_tlc("TraceStaged", "TraceStaged.cfg", env={"TRACE_FILE": cout}, workers=1, timeout=300)
    results = [("TraceStaged accepts real stepwise histories", not r.tagged("FAIL") and not r.error)]
    t = json.load(open(cout))
    t[0]["events"][1][0] = 1                               # the second step reporting the stage of the first
    t[1]["events"] = t[1]["events"][:1]                    # one of the two steps made at stage 2 not reported
    json.dump(t, open(cout, "w"))
    r = core.run_tlc("TraceStaged", "TraceStaged.cfg", env={"TRACE_FILE": cout}, workers=1, timeout=300)
    got = {(x[1], x[2]) for x in r.tagged("FAIL")}
    results.append(("TraceStaged rejects a stale caller state and a missing step", got == {(1, "CallerStateAtStep"), (2, "StepsReported")}))
    return results


def stream(work):
    """C17: an event delivered after a deactivation made inside the call must be rejected"""
    ops = [["stage", "s1", "accum"], ["act"], ["call", 3], ["calld", 5, "normal", "s2"], ["call", 7]]
    traces = L.run_histories([{"id": 1, "sel": "wrap", "ops": ops}], work, driver="harness.drivers.stream_driver", par=1)
    fails, _ = L.validate(traces, work, spec="TraceStream", par=1)
    results = [("TraceStream accepts a real history with a deactivation inside a call", not fails)]
    t = copy.deepcopy(traces)
    for st in t[0]["steps"][3:]:
        st["stages"]["s2"]["vals"] = [6]                   # the stage attached after the deactivation sees the end event
    fails, _ = L.validate(t, work, spec="TraceStream", par=1)
    results.append(("TraceStream rejects an event that reaches a stage attached after the deactivation",
                    any(r[0]["clause"] == "StageOutput" and r[0]["who"] == "s2" for tag, r in fails.get(1, []) if tag == "FAIL")))
    return results


def envelope(work):
    """C06 / Envelope.tla: a receive event with another value, a dropped exit event, an exit event delivered before the error event"""
    from . import envcheck as E

    def C(i, kind, script, drive, I=("*",), **kw):
        return {"id": i, "cfg": dict({"kind": kind, "script": script, "drive": drive, "I": list(I), "ext": [], "free": [], "params": []}, **kw),
                "how": {"close": "close", "star": "each"}}
    cases = [C(1, "gen", ["bind", "yield", "bind"], ["next", "send"], ext=["G"], params=["p"]), C(2, "fn", ["bind", "ret"], []),
             C(3, "gen", ["yield"], ["next", "throw"]), C(4, "gen", ["yield", "yield"], ["next", "close"])]
    res = E.execute(cases, work, par=1)
    results = [("TraceEnvelope accepts real activations", not any(t.tagged("FAIL") or t.error for t in E.validate(res, work, par=1)))]
    bad = copy.deepcopy(res)
    k = next(i for i, e in enumerate(bad[0]["out"]) if e[0] == "#receive")
    bad[0]["out"][k][1] = "s9"
    bad[1]["out"].pop()                                    # no exit event
    ke = next(i for i, e in enumerate(bad[2]["out"]) if e[0] == "#error")
    bad[2]["out"][ke], bad[2]["out"][ke + 1] = bad[2]["out"][ke + 1], bad[2]["out"][ke]
    bad[3]["obs"][-1] = ["raised", "GeneratorExit"]        # the driver sees another outcome than Python's
    got = {(x[1], x[2], x[4]) for t in E.validate(bad, work, par=1) for x in t.tagged("FAIL")}
    results.append(("TraceEnvelope rejects an altered sent value, a missing exit event, exit before error, another outcome - each at its position",
                    got == {(1, "BodyClause", k + 1), (2, "ExitClause", len(bad[1]["out"]) + 1), (3, "ExitClause", ke + 1), (4, "Transparent", len(bad[3]["out"]) + 1)}))
    if not results[-1][1]:
        print(sorted(got))
    return results


def stmts(work):
    """C02 / XformStmts.tla: the events of a tuple with-target in another order, a store into the holder object that did not happen"""
    import os
    cases = [{"id": 1, "st": {"s": "with", "k": 3, "t": {"t": "tuple", "elts": [{"t": "name", "v": "b"}, {"t": "name", "v": "a"}]}}, "I": ["a", "b"]},
             {"id": 2, "st": {"s": "for", "t": {"t": "tuple", "elts": [{"t": "name", "v": "a"}, {"t": "attr", "v": "o", "a": "p"}]}}, "I": ["*"]}]
    cin, cout = os.path.join(work, "stc.json"), os.path.join(work, "sto.json")
    json.dump(cases, open(cin, "w"))
    core.run_driver("harness.drivers.stmt_driver", [cin, cout, work])
    r = core.run_tlc("TraceXformStmts", "TraceXformStmts.cfg", env={"TRACE_FILE": cout}, workers=1, timeout=300)
    results = [("TraceXformStmts accepts real for / with statements", not r.tagged("FAIL") and not r.error)]
    t = json.load(open(cout))
    t[0]["events"].reverse()
    t[1]["stores"].append(["setattr", "V.0"])
    json.dump(t, open(cout, "w"))
    r = core.run_tlc("TraceXformStmts", "TraceXformStmts.cfg", env={"TRACE_FILE": cout}, workers=1, timeout=300)
    got = {(x[1], x[2], x[3]) for x in r.tagged("FAIL")}
    results.append(("TraceXformStmts rejects events in another order and an extra store", got == {(1, "StmtStream", 1), (2, "StmtStores", 2)}))
    return results


def relay_and_pairs(work):
    """C09 TraceRelay (a collection that is not restored, an event for the driver's own call) and C06 TraceEnvelopePair
    (an end event carrying the identity of another open block)"""
    import os
    cin, cout = os.path.join(work, "rl.json"), os.path.join(work, "rlo.json")
    json.dump([{"id": 1, "n": 3, "steps": 2, "end": "close"}, {"id": 2, "n": 2, "steps": 1, "end": "drop"}], open(cin, "w"))
    core.run_driver("harness.drivers.relay_driver", [cin, cout])
    r = core.run_tlc("TraceRelay", "TraceRelay.cfg", env={"TRACE_FILE": cout}, workers=1, timeout=300)
    results = [("TraceRelay accepts real nested-generator histories", not r.tagged("FAIL") and not r.error)]
    t = json.load(open(cout))
    k = next(i for i, s_ in enumerate(t[0]["trace"]) if s_["op"] == "end")
    t[0]["trace"][k]["cur"] = 9                             # the outer generator's collection left installed
    k2 = next(i for i, s_ in enumerate(t[1]["trace"]) if s_["op"] == "call")
    t[1]["trace"][k2]["inner"] += 1                         # 'gen > g > a' fires for the driver's own call of g
    json.dump(t, open(cout, "w"))
    r = core.run_tlc("TraceRelay", "TraceRelay.cfg", env={"TRACE_FILE": cout}, workers=1, timeout=300)
    got = {(x[1], x[2], x[3]) for x in r.tagged("FAIL")}
    results.append(("TraceRelay rejects a collection that is not restored and an event for the driver's own call",
                    got == {(1, "Restored", k + 1), (2, "OneEventEach", k2 + 1)}))
    from . import envcheck as E
    hist = [["A", "next"], ["B", "next"], ["A", "close"], ["B", "close"]]
    res = E.execute([{"id": 7, "hist": hist}], work, par=1)
    pj = os.path.join(work, "pr.json")

    def val(rs):
        json.dump([{"id": c["id"], "events": c["events"], "still": c["still"], "started": c["started"]} for c in rs], open(pj, "w"))
        return core.run_tlc("TraceEnvelopePair", "TraceEnvelopePair.cfg", env={"TRACE_FILE": pj}, workers=1, timeout=300)
    r = val(res)
    results.append(("TraceEnvelopePair accepts real overlapping activations", not r.tagged("FAIL") and not r.error and len(res[0]["events"]) == 4))
    bad = copy.deepcopy(res)
    ends = [i for i, e in enumerate(bad[0]["events"]) if e[1] == "end"]
    bad[0]["events"][ends[0]][2], bad[0]["events"][ends[1]][2] = bad[0]["events"][ends[1]][2], bad[0]["events"][ends[0]][2]
    r = val(bad)
    results.append(("TraceEnvelopePair rejects end events that carry each other's identity",
                    {(x[1], x[2], x[3]) for x in r.tagged("FAIL")} == {(7, "EndClosesAnotherBlock", ends[0] + 1)}))
    return results


def main():
    work = core.scratch("selftest-")
    results = []
    try:
        results += ptera_world(work)
        results += life(work)
        results += xform(work)
        results += gens(work)
        results += refs(work)
        results += xmech(work)
        results += staged(work)
        results += stream(work)
        results += envelope(work)
        results += stmts(work)
        results += relay_and_pairs(work)
    finally:
        core.cleanup()
    ok = True
    for name, good in results:
        print(("ok   " if good else "FAIL ") + name)
        ok = ok and good
    sys.exit(0 if ok else 2)


if __name__ == "__main__":
    main()
