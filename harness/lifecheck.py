"""Life-cycle checks (C05, C17 share the driver): TLC-generated histories -> real ptera -> TraceLife."""
import json
import os
import random
from concurrent.futures import ThreadPoolExecutor

from . import core


RUN_NO = [0]


def mc_cfg(maxops, universe, undo=True, incall=False):
    u = ", ".join(f'"{p}"' for p in universe)
    return (f"INIT InitX\nNEXT Next\nCONSTANTS MaxOps = {maxops}  UndoOnRefusal = {'TRUE' if undo else 'FALSE'}  InCall = {'TRUE' if incall else 'FALSE'}  "
            f"Universe = {{{u}}}\nCONSTRAINT Collect\nPOSTCONDITION Report\nCHECK_DEADLOCK FALSE\n")


def explore(out, maxops, universe, name, incall=False):
    r = core.run_tlc("LifeMechMC", mc_cfg(maxops, universe, incall=incall), workers=1, timeout=1200)
    out.add_tlc(name, r)
    hists = [t[1] for t in r.tagged("HIST")]
    sigs = {t[1]: t[2] for t in r.tagged("SIGNATURE")}
    return hists, sigs


def run_histories(cases, work, driver="harness.drivers.life_driver", par=12, maxchunk=2000):
    # at most maxchunk histories per interpreter (a driver process has a time limit), `par` interpreters at a time
    n = min(maxchunk, max(1, (len(cases) + par - 1) // par))
    chunks = [cases[i:i + n] for i in range(0, len(cases), n)]
    RUN_NO[0] += 1
    run_no = RUN_NO[0]

    def one(ix):
        cin = os.path.join(work, f"lc{run_no}_{ix}.json")
        cout = os.path.join(work, f"lt{run_no}_{ix}.json")
        json.dump(chunks[ix], open(cin, "w"))
        core.run_driver(driver, [cin, cout], timeout=3000)
        return json.load(open(cout))
    with ThreadPoolExecutor(max_workers=par) as ex:
        res = list(ex.map(one, range(len(chunks))))
    return [t for r in res for t in r]


def validate(traces, work, spec="TraceLife", chunk=400, par=12):
    chunks = [traces[i:i + chunk] for i in range(0, len(traces), chunk)]

    def one(ix):
        p = os.path.join(work, f"lv{ix}.json")
        json.dump(chunks[ix], open(p, "w"))
        return core.run_tlc(spec, spec + ".cfg", env={"TRACE_FILE": p}, workers=1, timeout=900)
    with ThreadPoolExecutor(max_workers=par) as ex:
        results = list(ex.map(one, range(len(chunks))))
    fails = {}
    for r in results:
        if r.error:
            raise core.MachineryError(f"{spec}: {r.error}\n{r.out[-3000:]}")
        for tag in ("FAIL", "INCOMPLETE"):
            for tup in r.tagged(tag):
                fails.setdefault(tup[1], []).append((tag, tup[2:]))
    return fails, results
