"""Skeleton-program checks (C01, C02 static part, later C06/C10/C16): IR families -> paths -> runs -> TraceXform."""
import json
import os
import random
from concurrent.futures import ThreadPoolExecutor

from . import core, skeletons as SK


def run_jobs(progs, opts, work, par=14, driver="harness.drivers.prog_driver"):
    n = max(1, (len(progs) + par * 2 - 1) // (par * 2))
    chunks = [progs[i:i + n] for i in range(0, len(progs), n)]

    def one(ix):
        jin = os.path.join(work, f"job{ix}.json")
        jout = os.path.join(work, f"ptr{ix}.json")
        json.dump({"progs": chunks[ix], "opts": dict(opts, seed=opts.get("seed", 0) + ix), "first_id": ix * 100000}, open(jin, "w"))
        core.run_driver(driver, [jin, jout], timeout=1800)
        return json.load(open(jout))
    with ThreadPoolExecutor(max_workers=par) as ex:
        res = list(ex.map(one, range(len(chunks))))
    return [t for r in res for t in r]


def validate(traces, work, spec="TraceXform", chunk=60, par=14):
    chunks = [traces[i:i + chunk] for i in range(0, len(traces), chunk)]

    def one(ix):
        p = os.path.join(work, f"xv{ix}.json")
        json.dump(chunks[ix], open(p, "w"))
        return core.run_tlc(spec, spec + ".cfg", env={"TRACE_FILE": p}, workers=1, timeout=1200)
    with ThreadPoolExecutor(max_workers=par) as ex:
        results = list(ex.map(one, range(len(chunks))))
    fails = {}
    for r in results:
        if r.error:
            raise core.MachineryError(f"{spec}: {r.error}\n{r.out[-3000:]}")
        for tag in ("FAIL", "INCOMPLETE"):
            for tup in r.tagged(tag):
                fails.setdefault(tup[1], []).append((tag, tup[2:]))
    return fails, results


def unpack_kinds(trace):
    return sorted({d[2] for d in trace["script"] if d[0] == "U"})


def signature(trace, f):
    run = trace["runs"][f["run"] - 1] if f["run"] > 0 else {"mode": "plain", "sels": []}
    kinds = unpack_kinds(trace)
    feats = set(trace["features"])
    return {"clause": f["clause"], "a": f["a"], "b": f["b"] if f["clause"] != "Stream" else "", "form": trace["form"],
            "ctx": trace["ctx"], "mode": run["mode"],
            "tuple_target": "target:tuple" in feats, "star_target": "target:star" in feats,
            "sub_target": "target:sub" in feats, "with_target": "stmt:with" in feats and "w" in trace["names"],
            "nonlocal": "stmt:nonlocal" in feats, "global": "stmt:global" in feats,
            "nonseq_unpack": any(k not in ("tuple", "list", "str") for k in kinds),
            "focus": ",".join(s["focus"] for s in run["sels"])[:40] if f["clause"] == "Stream" else ""}


def run_family(out, progs, opts, label):
    work = core.scratch(f"{out.prop.lower()}-")
    traces = run_jobs(progs, opts, work)
    fails, results = validate(traces, work)
    for i, r in enumerate(results):
        out.add_tlc(f"TraceXform[{label},{i}]", r)
    nruns = sum(len(t["runs"]) for t in traces)
    out.traces += nruns
    by = {t["id"]: t for t in traces}
    for tid, items in fails.items():
        t = by[tid]
        for tag, rest in items:
            if tag != "FAIL":
                out.judge({"clause": "Incomplete"}, {"pid": t["pid"]})
                continue
            f = rest[0]
            if f["clause"] == "TwinDrift":
                raise core.MachineryError(f"twin and plain runs differ for program {t['pid']} form {t['form']}")
            sig = signature(t, f)
            if out.clause_filter and not out.clause_filter(sig):
                continue
            out.judge(sig, {"program": next(p for p in progs if p["id"] == t["pid"]), "script": t["script"],
                            "run": t["runs"][f["run"] - 1] if f["run"] > 0 else None, "ref": t["ref"], "verdict": f})
    return traces, fails, nruns
