"""Scripted-world checks: cases -> real ptera (driver subprocesses) -> TLC trace validation against PteraAbs."""
import json
import os
import random
from concurrent.futures import ThreadPoolExecutor

from . import core

# clause -> property that owns it (for known-finding attribution)
CLAUSE_OWNER = {
    "FallOffValue": "C06", "TotalRecord": "C07", "TotalRecordNested": "C07", "Intercept": "C04",
    "OverrideNotAllowed": "C04", "Result": "C04", "DataFlow": "C04",
}


def norm_handler(h):
    h = dict(h)
    h.setdefault("ovr", {"k": "none"})
    h.setdefault("raw", False)
    h.setdefault("silent", False)
    h.setdefault("ptype", "")
    h.setdefault("wrap", False)
    return h


def run_cases(batches, workdir, par=8):
    """batches: list of (mode, cases). Each batch runs in its own interpreter. Returns list of traces."""
    def one(ix):
        mode, cases = batches[ix]
        cin = os.path.join(workdir, f"cases{ix}.json")
        cout = os.path.join(workdir, f"traces{ix}.json")
        with open(cin, "w") as fh:
            json.dump({"mode": mode, "cases": cases}, fh)
        core.run_driver("harness.drivers.world_driver", [cin, cout])
        with open(cout) as fh:
            return json.load(fh)
    with ThreadPoolExecutor(max_workers=par) as ex:
        res = list(ex.map(one, range(len(batches))))
    return [t for r in res for t in r]


def validate(traces, workdir, name="TracePtera", chunk=40, par=14, timeout=900):
    """Validate traces with TLC; returns (fails_by_id, tlc_results)."""
    chunks = [traces[i:i + chunk] for i in range(0, len(traces), chunk)]

    def one(ix):
        path = os.path.join(workdir, f"tv{ix}.json")
        with open(path, "w") as fh:
            json.dump(chunks[ix], fh)
        return core.run_tlc(name, name + ".cfg", env={"TRACE_FILE": path}, workers=1, timeout=timeout)
    with ThreadPoolExecutor(max_workers=par) as ex:
        results = list(ex.map(one, range(len(chunks))))
    fails = {}
    for r in results:
        if r.error:
            raise core.MachineryError(f"trace validation failed: {r.error}\n{r.out[-3000:]}")
        for tag in ("FAIL", "INCOMPLETE", "OUTCOME"):
            for tup in r.tagged_multiline(tag):
                fails.setdefault(tup[1], []).append((tag, tup[2:]))
    return fails, results


def judge(out, traces, fails, case_of, features_of=None):
    """Turn TLC verdict lines into known-finding hits / violations."""
    by_id = {t["id"]: t for t in traces}
    amb = 0
    for tid, items in fails.items():
        if any(tag == "FAIL" and rest[0]["clause"] == "AMBIGUOUS" for tag, rest in items):
            amb += 1
            continue
        for tag, rest in items:
            if tag == "FAIL":
                f = rest[0]
                sig = {"clause": f["clause"], "var": f["var"], "why": f["why"]}
            elif tag == "OUTCOME":
                sig = {"clause": "Outcome", "var": "", "why": rest[0]}
            else:
                sig = {"clause": "Incomplete", "var": "", "why": ""}
            if features_of:
                sig.update(features_of(by_id[tid], sig))
            payload = {"case": case_of(tid), "verdict": [tag, rest], "trace": by_id[tid]["events"]}
            out.judge(sig, payload)
    out.extra["ambiguous_skipped"] = amb
    return amb
