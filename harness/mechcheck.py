"""PteraMech |= PteraAbs (TLC, exhaustive over small histories) and replay of every TLC history in the scripted world."""
from . import core, sel as S, worldcheck as W

# must mirror the catalogue Sels of specs/PteraMech.tla
CATALOGUE = {
    1: ("imm", S.node("f", [S.cap("a", "k0", 0)], [S.node("f", [S.cap("a", "k1", 1)])])),
    2: ("tot", S.node("f", [], [S.node("g", [], [S.node("f", [S.cap("a", "k", 0)])])])),
    3: ("imm", S.node("f", [], [S.node("g", [S.cap("a", "s", 0)]), S.node("f", [S.cap("a", "k1", 1)])])),
    4: ("tot", S.node("f", [S.cap("a", "x", 0)], [S.node("g", [S.cap("a", "y", 0)])])),
    5: ("imm", S.node("f", [], [S.node("g", [S.cap("a", "k", 1)])])),
    6: ("imm", S.node("f", [S.cap("a", "o", 0)], [S.node("g", [], [S.node("f", [S.cap("a", "k", 1)])])])),
    7: ("imm", S.node("g", [S.cap("a", "k", 1)])),
    8: ("tot", S.node("f", [S.cap("a", "x", 0)])),
    9: ("imm", S.node("f", [S.cap("a", "k", 1)], [S.node("g", [S.cap("a", "s", 0)])])),
    10: ("tot", S.node("f", [], [S.node("g", [S.cap("a", "y", 0)]), S.node("f", [S.cap("a", "z", 0)])])),
}


def cfg(maxev, depth, sid):
    return (f"INIT InitX\nNEXT Next\nCONSTANTS MaxEv = {maxev}  MaxDepth = {depth}  SelId = {sid}\nCONSTRAINT Collect\n"
            "POSTCONDITION Report\nCHECK_DEADLOCK FALSE\n")


def to_script(hist):
    """TLC history -> world script of one top-level call of f (the first enter is the driver's own call)"""
    script = []
    n = 0
    for k, h in enumerate(hist):
        if h[0] == "enter":
            if k > 0:
                n += 1
                script.append(["call_" + h[1], n])
        elif h[0] == "bind":
            n += 1
            script.append(["bind_" + h[1], n])
        else:
            script.append(["end", 0])
    return script


def explore(out, kind, maxev, depth, expect_sig=()):
    """returns (cases for the world, signatures per selector id)"""
    cases = []
    sigs = {}
    for sid, (k, node) in CATALOGUE.items():
        if k != kind:
            continue
        r = core.run_tlc("PteraMech", cfg(maxev, depth, sid), workers=1, timeout=1800)
        out.add_tlc(f"PteraMech[sel {sid}, <= {maxev} events]", r)
        s = r.tagged("SIGNATURE")
        if s:
            sigs[sid] = s[0][2]
        hists = [t[1] for t in r.tagged("HIST")]
        for h in hists + ([s[0][2]] if s else []):
            if not h or h[-1][0] != "exit":
                # witness prefix: close the open calls
                opens = sum(1 for x in h if x[0] == "enter") - sum(1 for x in h if x[0] == "exit")
                h = list(h) + [["exit"]] * opens
            cases.append({"id": 0, "sid": sid, "script": to_script(h), "arg": 0,
                          "handlers": [W.norm_handler({"kind": k, "sel": node})]})
    return cases, sigs
