-------------------------------- MODULE TracePtera --------------------------------
(* Batch trace validation of real scripted-world executions against PteraAbs.          *)
(* One behaviour per trace (tid chosen in Init); one step per environment event; every *)
(* event's deliveries are compared with what the A-level definitions owe.  Verdicts    *)
(* are total: a mismatch is recorded (clause + features) and the state still advances, *)
(* so the rest of the trace is checked too.                                            *)
EXTENDS PteraAbs, Json, IOUtils, TLCExt

Traces == JsonDeserialize(IOEnv.TRACE_FILE)

VARIABLES tid, l, acts, stack, loops, pend, lastret, lastfall, fails, leaves
vars == <<tid, l, acts, stack, loops, pend, lastret, lastfall, fails, leaves>>

T == Traces[tid]
NH == Len(T.handlers)
E == T.events[l]
Top(st) == st[Len(st)]
Facts(fn) == T.facts[fn]

\* ------------------------------------------------------------------ sub-steps owed by an event
B(var, val, cats, tab, ovr, why) == [k |-> "bind", var |-> var, val |-> val, cats |-> cats, tab |-> tab, ovr |-> ovr, why |-> why]
X == [k |-> "exit"]
ExtIndex(name) == CHOOSE i \in DOMAIN T.ext : T.ext[i] = name
\* named rule OwnNameNotExternal: the function's own name is not prefetched
\* every global the body reads, the function's own name included (recursion) - since fix 9b80e35; before it ptera left
\* the own name out and this definition did too
Externals(fn) == Facts(fn).ext
EntrySteps(fn, arg) ==
  << B("#enter", TrueV, {"enter"}, TRUE, FALSE, "") >>
  \o [i \in DOMAIN Externals(fn) |-> B(Externals(fn)[i], ExtBase + ExtIndex(Externals(fn)[i]) - 1, {}, TRUE, TRUE, "ext")]
  \o [i \in DOMAIN Facts(fn).params |->
        B(Facts(fn).params[i].name, arg, ToSet(Facts(fn).params[i].cats), TRUE, TRUE, "")]
\* loops of one activation: sequence of [var, st] (st: 1 = open, between iterations; 2 = inside an iteration), innermost last
EndOne(lp) == IF lp.st = 2 THEN << B("#endloop_" \o lp.var, TrueV, {}, FALSE, FALSE, "") >> ELSE <<>>
RECURSIVE EndLoop(_)
EndLoop(ls) == IF ls = <<>> THEN <<>> ELSE EndOne(ls[Len(ls)]) \o EndLoop(SubSeq(ls, 1, Len(ls) - 1))
\* activations popped by an exception raised in the innermost one: up to and including the innermost catch
RaisePopCount(A, st) ==
  LET c == {i \in DOMAIN st : A[st[i]].catch} IN
  IF c = {} THEN Len(st) ELSE Len(st) - (CHOOSE i \in c : \A j \in c : j <= i) + 1
RECURSIVE RaiseSteps(_, _, _)
RaiseSteps(lp, n, v) ==     \* lp: loop states of the activations to pop, innermost LAST
  IF n = 0 THEN <<>>
  ELSE EndLoop(lp[Len(lp)]) \o << B("#error", ExcBase + v, {}, FALSE, FALSE, ""), B("#exit", TrueV, {"exit"}, TRUE, FALSE, ""), X >>
       \o RaiseSteps(SubSeq(lp, 1, Len(lp) - 1), n - 1, v)

\* ------------------------------------------------------------------ actual deliveries
ActualOf(h) == SelectSeq(E.dlv, LAMBDA d : d.h = h)
Shape(H, r) ==      \* actual record -> comparable set
  IF H.kind = "tot" THEN { <<r[i][1], r[i][2]>> : i \in DOMAIN r }
  ELSE IF H.raw THEN { <<r[i][1], r[i][2], r[i][3]>> : i \in DOMAIN r }
  ELSE { <<r[i][1], r[i][2]>> : i \in DOMAIN r }
Project0(H, rec) == IF H.kind = "tot" \/ H.raw THEN rec ELSE { <<x[1], x[2]>> : x \in rec }
\* wrapper probes (a second focus mark): the event also says whether it is the begin or the end of the pair
TagOfKey(H, key) == LET F == FocusNode(H.sel) IN F.caps[CHOOSE i \in DOMAIN F.caps : F.caps[i].key = key].tag
Project(H, x) == IF H.wrap /\ Len(x) = 3 THEN Project0(H, x[3]) \cup {<<"$wrap", TagOfKey(H, x[2])>>}
                 ELSE Project0(H, x[Len(x)])
\* expected: set of tagged records <<tag..., rec>> (rec last) ; chunk: sequence of actual records
BagEq(H, exp, chunk) ==
  LET erecs == { Project(H, x) : x \in exp }
      arecs == { Shape(H, chunk[i].rec) : i \in DOMAIN chunk }
  IN /\ erecs = arecs
     /\ \A r \in erecs : Cardinality({x \in exp : Project(H, x) = r})
                         = Cardinality({i \in DOMAIN chunk : Shape(H, chunk[i].rec) = r})

\* ------------------------------------------------------------------ processing the sub-steps of one event
\* S = [A, st, ptr (per handler), fails, amb]
Fail(S, clause, step, h) == [S EXCEPT !.fails = Append(@, [line |-> l, clause |-> clause, var |-> step.var, why |-> step.why, h |-> h])]

\* consume the chunk owed to handler h for expected set exp; on mismatch record clause
Consume(S, h, exp, clause, step) ==
  LET H == T.handlers[h]
      act == ActualOf(h)
      n == Cardinality(exp)
      from == S.ptr[h] + 1
      chunk == IF from + n - 1 <= Len(act) THEN SubSeq(act, from, from + n - 1) ELSE <<>>
      ok == (from + n - 1 <= Len(act)) /\ BagEq(H, exp, chunk)
  IN IF ok THEN [S EXCEPT !.ptr[h] = @ + n, !.at[h] = @ \o [k \in 1..n |-> S.si]]
     ELSE Fail(S, clause, step, h)      \* nothing consumed: what is left over is reported as Spurious

\* intercept stage over handlers h..NH ; res = results of the last handler with a non-declining result
RECURSIVE IcptStage(_, _, _, _)
IcptStage(S, step, h, res) ==
  IF h > NH THEN [S |-> S, res |-> res]
  ELSE LET H == T.handlers[h] IN
       IF H.kind # "imm" \/ H.ovr.k = "none" THEN IcptStage(S, step, h + 1, res)
       ELSE LET I == IcptRecs(S.A, S.st, H.sel, step.var, step.val, step.cats, step.tab)
                r == { OvrVal(H.ovr, x[3], FocusKey(H.sel)) : x \in I } \ {Decline}
                S2 == IF H.silent THEN S
                      ELSE Consume(S, h, I, IF step.why = "falloff" THEN "FallOffValue" ELSE "Intercept", step)
            IN IcptStage(S2, step, h + 1, IF r = {} THEN res ELSE r)

RECURSIVE ObserveStage(_, _, _, _)
ObserveStage(S, step, b, h) ==
  IF h > NH THEN S
  ELSE LET H == T.handlers[h] IN
       IF H.kind = "tot" /\ HasFocus(H.sel)
       THEN \* forced total: every embedding of this focus binding becomes a leaf of its outermost activation
            LET F == FocusNode(H.sel)
                trig == \E i \in DOMAIN F.caps : F.caps[i].tag = 1 /\ CapMatches(F.caps[i], b)
                embs == IF trig THEN Emb(S.A, S.st, H.sel, 1, {}, <<>>) ELSE {}
                new == SetToSeq({ [h |-> h, chain |-> [j \in DOMAIN e[1] |-> S.st[e[1][j]]], val |-> b.val] : e \in embs })
            IN ObserveStage([S EXCEPT !.leaves = @ \o new], step, b, h + 1)
       ELSE IF H.kind # "imm" \/ H.ovr.k # "none" THEN ObserveStage(S, step, b, h + 1)
       ELSE LET R == ImmRecs(S.A, S.st, H.sel, b)
                S2 == Consume(S, h, R, IF step.why = "falloff" THEN "FallOffValue" ELSE "Deliveries", step)
            IN ObserveStage(S2, step, b, h + 1)

\* remove repeated values, keeping first occurrences (applied to both sides: equal up to repetition)
RECURSIVE Dedup(_)
Dedup(s) == IF s = <<>> THEN <<>>
            ELSE LET r == Dedup(SubSeq(s, 1, Len(s) - 1)) IN
                 IF \E i \in DOMAIN r : r[i] = s[Len(s)] THEN r ELSE Append(r, s[Len(s)])
RECURSIVE TotalStage(_, _, _, _)
TotalStage(S, step, a, h) ==
  IF h > NH THEN S
  ELSE LET H == T.handlers[h] IN
       IF H.kind # "tot" THEN TotalStage(S, step, a, h + 1)
       ELSE IF HasFocus(H.sel)
       THEN LET mine == SelectSeq(S.leaves, LAMBDA x : x.h = h /\ x.chain[1] = a)
                recs == { <<i, ForcedRec(S.A, H.sel, mine[i].chain, mine[i].val)>> : i \in DOMAIN mine }
                R == { x \in recs : ForcedOK(H.sel, x[2]) }
                S2 == Consume(S, h, R, IF TotalNested(S.A, H.sel, a) THEN "ForcedTotalNested" ELSE "ForcedTotal", step)
                \* the named deviation TotalDupPerDepth in forced-total mode: what is delivered for this call equals what
                \* is owed up to repeated values (and repeated records), only when an intermediate level matches twice
                act == ActualOf(h)
                n == Cardinality(R)            \* several activations may end at one event (an exception): this one owes n records
                rest == IF S.ptr[h] + n <= Len(act) THEN SubSeq(act, S.ptr[h] + 1, S.ptr[h] + n) ELSE <<>>
                dup == /\ Len(S2.fails) > Len(S.fails) /\ R # {} /\ rest # <<>>
                       /\ TotalNested(S.A, H.sel, a)
                       /\ { { <<rest[k].rec[i][1], Dedup(rest[k].rec[i][2])>> : i \in DOMAIN rest[k].rec } : k \in DOMAIN rest }
                          = { { <<y[1], Dedup(y[2])>> : y \in x[2] } : x \in R }
                S3 == IF dup THEN [Fail(S, "TotalRecordNested", step, h) EXCEPT !.ptr[h] = @ + n, !.at[h] = @ \o [k \in DOMAIN rest |-> S.si]]
                      ELSE S2
            IN TotalStage([S3 EXCEPT !.leaves = SelectSeq(@, LAMBDA x : ~(x.h = h /\ x.chain[1] = a))], step, a, h + 1)
       ELSE LET R == { <<0, r>> : r \in TotalRecs(S.A, H.sel, a) }
                S2 == Consume(S, h, R, "TotalRecord", step)
                act == ActualOf(h)
                nxt == S.ptr[h] + 1
                \* named deviation TotalDupPerDepth: same record up to repeated values, only when an
                \* intermediate selector level matches at two nesting depths
                dup == /\ Len(S2.fails) > Len(S.fails) /\ R # {} /\ nxt <= Len(act)
                       /\ TotalNested(S.A, H.sel, a)
                       /\ { <<act[nxt].rec[i][1], Dedup(act[nxt].rec[i][2])>> : i \in DOMAIN act[nxt].rec }
                          = { <<y[1], Dedup(y[2])>> : y \in (CHOOSE x \in R : TRUE)[2] }
                S3 == IF dup THEN [Fail(S, "TotalRecordNested", step, h) EXCEPT !.ptr[h] = @ + 1, !.at[h] = Append(@, S.si)] ELSE S2
            IN TotalStage(S3, step, a, h + 1)

RECURSIVE Run(_, _, _)
Run(S0, steps, i) ==
  IF i > Len(steps) THEN S0
  ELSE LET step == steps[i]
           S == [S0 EXCEPT !.si = i] IN
    IF step.k = "exit"
    THEN LET a == Top(S.st)
             S2 == TotalStage(S, [var |-> "#close", why |-> ""], a, 1)
         IN Run([S2 EXCEPT !.st = SubSeq(@, 1, Len(@) - 1)], steps, i + 1)
    ELSE LET a == Top(S.st)
             ic == IcptStage(S, step, 1, {})
             S1 == ic.S
             amb == Cardinality(ic.res) > 1
             forbidden == ic.res # {} /\ ~step.ovr
             stored == IF ic.res = {} \/ amb THEN step.val ELSE CHOOSE v \in ic.res : TRUE
             b == [t |-> l * 100 + i, var |-> step.var, val |-> stored, cats |-> step.cats, tab |-> step.tab]
             S1b == IF amb THEN Fail(S1, "AMBIGUOUS", step, 0)
                    ELSE IF forbidden THEN Fail(S1, "OverrideNotAllowed", step, 0) ELSE S1
             S2 == [S1b EXCEPT !.A = [@ EXCEPT ![a].binds = Append(@, b)]]
         IN Run(ObserveStage(S2, step, b, 1), steps, i + 1)

\* after the steps every handler's deliveries must be used up
RECURSIVE Leftover(_, _)
Leftover(S, h) ==
  IF h > NH THEN S
  ELSE Leftover(IF S.ptr[h] = Len(ActualOf(h)) \/ (\E k \in DOMAIN S.fails : S.fails[k].line = l /\ S.fails[k].h = h) THEN S
                ELSE Fail(S, "Spurious", [var |-> "", why |-> IF lastfall THEN "afterfalloff" ELSE ""], h), h + 1)

\* deliveries of one event, taken in their global order, must follow the order of the sub-steps that owe
\* them (entry before variables before value / error before exit before the closing records)
RECURSIVE OrderOK(_, _, _, _)
OrderOK(S, k, cnt, last) ==
  IF k > Len(E.dlv) THEN TRUE
  ELSE LET h == E.dlv[k].h
           c == cnt[h] + 1
       IN IF c > Len(S.at[h]) THEN TRUE      \* unconsumed: already reported
          ELSE S.at[h][c] >= last /\ OrderOK(S, k + 1, [cnt EXCEPT ![h] = c], S.at[h][c])
CheckOrder(S) == IF OrderOK(S, 1, [h \in 1..NH |-> 0], 0) THEN S
                 ELSE Fail(S, "Order", [var |-> "", why |-> ""], 0)

Process(A, st, steps) ==
  CheckOrder(Leftover(Run([A |-> A, st |-> st, ptr |-> [h \in 1..NH |-> 0], at |-> [h \in 1..NH |-> <<>>],
                           si |-> 0, fails |-> fails, leaves |-> leaves], steps, 1), 1))

LastVal(A, a, var) ==
  LET idx == {i \in DOMAIN A[a].binds : A[a].binds[i].var = var} IN
  IF idx = {} THEN Decline ELSE A[a].binds[CHOOSE i \in idx : \A j \in idx : j <= i].val

\* ------------------------------------------------------------------ stepping
Init == /\ tid \in 1..Len(Traces) /\ l = 1 /\ acts = <<>> /\ stack = <<>> /\ loops = <<>>
        /\ pend = Decline /\ lastret = Decline /\ lastfall = FALSE /\ fails = <<>> /\ leaves = <<>>
        /\ TLCSet(tid, <<0, <<>>>>)

AddFail(f, clause, why) == Append(f, [line |-> l, clause |-> clause, var |-> "", why |-> why, h |-> 0])
NoDlv(f) == IF E.dlv = <<>> THEN f ELSE AddFail(f, "Spurious", "")

Step ==
  /\ l <= Len(T.events)
  /\ l' = l + 1 /\ UNCHANGED tid
  /\ CASE E.ev = "call" ->
            LET a == [fn |-> E.fn, parent |-> IF stack = <<>> THEN 0 ELSE Top(stack), catch |-> E.catch,
                      fcats |-> {}, binds |-> <<>>]
                A2 == Append(acts, a)
                st2 == Append(stack, Len(A2))
                S == Process(A2, st2, EntrySteps(E.fn, E.val))
            IN /\ acts' = S.A /\ stack' = st2 /\ loops' = Append(loops, <<>>) /\ fails' = S.fails /\ leaves' = S.leaves
               /\ UNCHANGED <<pend, lastret, lastfall>>
       [] E.ev \in {"bind", "ann"} ->
            LET cats == IF E.ev = "ann" THEN ToSet(Facts(acts[Top(stack)].fn).ann[E.var]) ELSE {}
                S == Process(acts, stack, << B(E.var, E.val, cats, TRUE, TRUE, "") >>)
            IN acts' = S.A /\ fails' = S.fails /\ leaves' = S.leaves /\ UNCHANGED <<stack, loops, pend, lastret, lastfall>>
       [] E.ev = "aug" ->
            LET old == LastVal(acts, Top(stack), E.var)
                S == Process(acts, stack, << B(E.var, old + E.val, {}, TRUE, TRUE, "") >>)
            IN acts' = S.A /\ fails' = S.fails /\ leaves' = S.leaves /\ UNCHANGED <<stack, loops, pend, lastret, lastfall>>
       [] E.ev = "read" ->
            /\ pend' = LastVal(acts, Top(stack), E.var) /\ fails' = NoDlv(fails)
            /\ UNCHANGED <<acts, stack, loops, lastret, lastfall, leaves>>
       [] E.ev = "seen" ->
            /\ fails' = NoDlv(IF E.val = pend THEN fails ELSE AddFail(fails, "DataFlow", ""))
            /\ UNCHANGED <<acts, stack, loops, pend, lastret, lastfall, leaves>>
       [] E.ev \in {"loop", "sloop"} ->
            /\ loops' = [loops EXCEPT ![Len(loops)] = Append(@, [var |-> IF E.ev = "loop" THEN "i" ELSE E.var, st |-> 1])]
            /\ fails' = NoDlv(fails)
            /\ UNCHANGED <<acts, stack, pend, lastret, lastfall, leaves>>
       [] E.ev = "iter" ->
            LET ls == loops[Len(loops)]  lp == ls[Len(ls)]
                S == Process(acts, stack, << B("#loop_" \o lp.var, TrueV, {}, FALSE, FALSE, ""), B(lp.var, E.val, {}, TRUE, TRUE, "") >>)
            IN /\ acts' = S.A /\ fails' = S.fails /\ leaves' = S.leaves /\ loops' = [loops EXCEPT ![Len(loops)][Len(ls)].st = 2]
               /\ UNCHANGED <<stack, pend, lastret, lastfall>>
       [] E.ev \in {"next", "cont", "brk"} ->
            LET ls == loops[Len(loops)]  lp == ls[Len(ls)]
                S == Process(acts, stack, EndOne(lp))
            IN /\ acts' = S.A /\ fails' = S.fails /\ leaves' = S.leaves
               /\ loops' = [loops EXCEPT ![Len(loops)] = IF E.ev = "brk" THEN SubSeq(ls, 1, Len(ls) - 1) ELSE [ls EXCEPT ![Len(ls)].st = 1]]
               /\ UNCHANGED <<stack, pend, lastret, lastfall>>
       [] E.ev = "stop" ->
            \* the loop ends; in the straight-line function s the inner loop j is the last statement of the body of loop i,
            \* so the enclosing iteration of i ends here too (its #endloop follows without an event of its own)
            LET ls == loops[Len(loops)]  lp == ls[Len(ls)]
                rest == SubSeq(ls, 1, Len(ls) - 1)
                outerEnds == lp.var = "j" /\ rest # <<>>
                S == Process(acts, stack, IF outerEnds THEN EndOne(rest[Len(rest)]) ELSE <<>>)
            IN /\ acts' = S.A /\ fails' = S.fails /\ leaves' = S.leaves
               /\ loops' = [loops EXCEPT ![Len(loops)] = IF outerEnds THEN [rest EXCEPT ![Len(rest)].st = 1] ELSE rest]
               /\ UNCHANGED <<stack, pend, lastret, lastfall>>
       [] E.ev \in {"sval", "slast"} ->
            \* straight-line function s: a at top level, b in the i loop, c in the j loop (the last statement of j's body:
            \* the iteration of j ends right after it); slast is the function's last statement
            LET a == Top(stack)
                ls == loops[Len(loops)]
                depth == Len(ls)
                var == IF depth = 0 THEN "a" ELSE IF depth = 1 THEN "b" ELSE "c"
                steps == << B(var, E.val, {}, TRUE, TRUE, "") >> \o
                         (IF depth = 2 THEN EndOne(ls[2]) ELSE <<>>) \o
                         (IF E.ev = "slast" THEN << B("#value", NoneV, {}, FALSE, TRUE, "falloff"), B("#exit", TrueV, {"exit"}, TRUE, FALSE, ""), X >> ELSE <<>>)
                S == Process(acts, stack, steps)
            IN /\ acts' = S.A /\ fails' = S.fails /\ leaves' = S.leaves
               /\ IF E.ev = "slast"
                  THEN /\ stack' = SubSeq(stack, 1, Len(stack) - 1) /\ loops' = SubSeq(loops, 1, Len(loops) - 1)
                       /\ lastret' = LastVal(S.A, a, "#value") /\ lastfall' = TRUE
                  ELSE /\ loops' = IF depth = 2 THEN [loops EXCEPT ![Len(loops)][2].st = 1] ELSE loops
                       /\ UNCHANGED <<stack, lastret, lastfall>>
               /\ UNCHANGED pend
       [] E.ev \in {"ret", "end"} ->
            LET a == Top(stack)
                first == IF E.ev = "ret" THEN B("#value", E.val, {}, FALSE, TRUE, "")
                                         ELSE B("#value", NoneV, {}, FALSE, TRUE, "falloff")
                S == Process(acts, stack, <<first>> \o EndLoop(loops[Len(loops)])
                                          \o << B("#exit", TrueV, {"exit"}, TRUE, FALSE, ""), X >>)
            IN /\ acts' = S.A /\ fails' = S.fails /\ leaves' = S.leaves
               /\ stack' = SubSeq(stack, 1, Len(stack) - 1) /\ loops' = SubSeq(loops, 1, Len(loops) - 1)
               /\ lastret' = LastVal(S.A, a, "#value") /\ lastfall' = (E.ev = "end")
               /\ UNCHANGED pend
       [] E.ev \in {"raise", "sraise"} ->
            LET n == RaisePopCount(acts, stack)
                S == Process(acts, stack, RaiseSteps(SubSeq(loops, Len(loops) - n + 1, Len(loops)), n, E.val))
            IN /\ acts' = S.A /\ fails' = S.fails /\ leaves' = S.leaves
               /\ stack' = SubSeq(stack, 1, Len(stack) - n) /\ loops' = SubSeq(loops, 1, Len(loops) - n)
               /\ UNCHANGED <<pend, lastret, lastfall>>
       [] E.ev = "result" ->
            /\ fails' = NoDlv(IF E.val = lastret THEN fails
                              ELSE AddFail(fails, IF lastfall THEN "FallOffValue" ELSE "Result", ""))
            /\ UNCHANGED <<acts, stack, loops, pend, lastret, lastfall, leaves>>
       [] E.ev = "caught" ->
            /\ fails' = NoDlv(fails) /\ UNCHANGED <<acts, stack, loops, pend, lastret, lastfall, leaves>>
       [] OTHER ->
            /\ fails' = AddFail(fails, "EscapedError", "") /\ UNCHANGED <<acts, stack, loops, pend, lastret, lastfall, leaves>>

Spec == Init /\ [][Step]_vars

\* progress register: <<events consumed, failures>> ; read by the postcondition
Progress == TLCSet(tid, <<l - 1, fails>>)
Post == \A i \in 1..Len(Traces) :
          LET r == TLCGet(i) IN
          /\ (r[1] # Len(Traces[i].events) => PrintT(<<"INCOMPLETE", Traces[i].id, r[1], Len(Traces[i].events)>>))
          /\ (Traces[i].outcome # "ok" => PrintT(<<"OUTCOME", Traces[i].id, Traces[i].outcome>>))
          /\ \A k \in DOMAIN r[2] : PrintT(<<"FAIL", Traces[i].id, r[2][k]>>)
=============================================================================
