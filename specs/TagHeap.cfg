SPECIFICATION Spec
CONSTANTS Names = {"A", "B", "C"}  MaxOps = 5  InPlace = FALSE
INVARIANT Denotes
PROPERTY OperandsUnchanged
CHECK_DEADLOCK FALSE
