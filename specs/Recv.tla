----------------------------------- MODULE Recv -----------------------------------
(* C13: method selectors and receivers.                                                  *)
(* Population (harness/worlds/recvworld.py): k1,k2 plain instances; s1 instance of a     *)
(* subclass inheriting the method; e1,e2 equal-by-value hashable instances, e3 a          *)
(* different one; u1,u2 equal-by-value unhashable instances.                              *)
(* A level: 'Cls.meth > v' observes the method on every instance (subclasses included);   *)
(*          'obj.meth > v' observes exactly the calls whose receiver *is* obj.            *)
(* M level: selector._resolve adds a capture of the receiver parameter constrained by     *)
(*          value (Selector.check_captures compares with ==) and interns the element by   *)
(*          hashing its fields (InternedMC).  With the receiver itself as the value equal  *)
(*          receivers are confused and an unhashable receiver makes selector creation fail *)
(*          (pinned tree); the repaired tree wraps it in MatchIdentity.                    *)
EXTENDS Integers, Sequences, FiniteSets, TLC
Objs == {"k1", "k2", "s1", "e1", "e2", "e3", "u1", "u2"}
ClassOf(o) == CASE o \in {"k1", "k2"} -> "K" [] o = "s1" -> "Sub" [] o \in {"e1", "e2", "e3"} -> "E" [] o \in {"u1", "u2"} -> "U"
IsSub(c, d) == c = d \/ d = "K"                         \* every class derives from K
EqKey(o) == CASE o \in {"e1", "e2"} -> "E:1" [] o = "e3" -> "E:2" [] o \in {"u1", "u2"} -> "U:1" [] OTHER -> o   \* plain: identity
Hashable(o) == ClassOf(o) # "U"
Classes == {"K", "Sub", "E", "U"}
\* the recursive method tree(x) calls itself on the kids of its receiver before binding v
Kids(o) == CASE o = "k1" -> {"k2"} [] o = "k2" -> {"s1"} [] o = "e1" -> {"e3"} [] OTHER -> {}
Subtree(o) == {o} \cup Kids(o) \cup UNION {Kids(k) : k \in Kids(o)}
\* ------------- A level
AAccepts(target) == TRUE
\* every class of the population inherits K's method: selecting it through any of them names the same function
AFires(target, recv) == IF target \in Classes THEN TRUE ELSE recv = target
\* ------------- M level
\* IdentityMatch: the receiver constraint is a MatchIdentity wrapper (== is `is`, hash is id) - since fix 46f934a: before it the
\* receiver itself was the constraint value: compared with ==, interned by hash (equal receivers confused, unhashable refused)
IdentityMatch == TRUE
MAccepts(target) == target \in Classes \/ IdentityMatch \/ Hashable(target)
MFires(target, recv) == IF target \in Classes THEN TRUE ELSE IF IdentityMatch THEN recv = target ELSE EqKey(recv) = EqKey(target)
=============================================================================
