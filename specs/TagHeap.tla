---------------------------------- MODULE TagHeap ----------------------------------
(* C11, tag algebra with object identity.  Tag annotations are ordinary Python objects  *)
(* that programs name, share between annotations and combine again:                     *)
(*     Common = tag.A & tag.B ;  def f(x: Common, y: Common & tag.C): ...               *)
(* A level: every object denotes a set of tag names, fixed at creation; `a & b` creates  *)
(* an object denoting the union and changes the denotation of no existing object.       *)
(* M level: transcription of tags.py with a heap: _TagFactory caches one Tag per name,   *)
(* _merge builds a fresh TagSet from the members of both operands.                       *)
(* InPlace = TRUE selects the tempting "optimisation" (extend the left operand when it   *)
(* already is a TagSet and return it) to show that the clauses discriminate.             *)
EXTENDS Integers, Sequences, FiniteSets, TLC
CONSTANTS Names, MaxOps, InPlace
VARIABLES heap,      \* M: sequence of [k |-> "tag" | "set", members |-> set of names]
          aheap,     \* A: sequence of sets of names (ghost)
          ops        \* history (exported)
vars == <<heap, aheap, ops>>
Init == heap = <<>> /\ aheap = <<>> /\ ops = <<>>
\* tag.N : the factory hands out the cached Tag; a new heap slot only the first time
Tag(nm) == /\ Len(ops) < MaxOps
           /\ heap' = Append(heap, [k |-> "tag", members |-> {nm}])
           /\ aheap' = Append(aheap, {nm})
           /\ ops' = Append(ops, [op |-> "tag", n |-> nm, i |-> 0, j |-> 0])
\* heap[i] & heap[j]  (Tag.__and__ / TagSet.__and__ = _merge)
And(i, j) == /\ Len(ops) < MaxOps
             /\ LET m == heap[i].members \cup heap[j].members
                    base == IF InPlace /\ heap[i].k = "set" THEN [heap EXCEPT ![i].members = m] ELSE heap
                IN heap' = Append(base, [k |-> "set", members |-> m])
             /\ aheap' = Append(aheap, aheap[i] \cup aheap[j])
             /\ ops' = Append(ops, [op |-> "and", n |-> "", i |-> i, j |-> j])
Next == (\E nm \in Names : Tag(nm)) \/ (\E i, j \in DOMAIN heap : And(i, j))
Spec == Init /\ [][Next]_vars
\* every object denotes what the A level says (in particular: match_tag(T, obj) <=> T \in aheap[obj])
Denotes == \A x \in DOMAIN heap : heap[x].members = aheap[x]
\* no operation changes an existing object
OperandsUnchanged == [][\A x \in DOMAIN heap : heap'[x] = heap[x]]_vars
=============================================================================
