--------------------------------- MODULE RegistryOps ---------------------------------
(* Pure operators of the registry mechanism (see RegistryPaths.tla for the description):   *)
(* codefind's path table (cur : path -> code, back : code -> paths) and ptera's            *)
(* transform() / _apply(), as functions of an explicit state record, for the functions of   *)
(* harness/worlds/refworld.py.  Used by RegistryPaths (model checking) and by TraceRefs     *)
(* (prediction of what the real registry answers along a recorded history).                 *)
EXTENDS Integers, Sequences, FiniteSets, TLC
Fns == {"top", "meth", "Outer.meth", "Outer.Inner.meth", "make", "make.inner", "inner", "deco", "way", "Box.Lid.open"}
Bare(f) == CASE f \in {"Outer.meth", "Outer.Inner.meth"} -> "meth" [] f = "make.inner" -> "inner" [] f = "Box.Lid.open" -> "open" [] OTHER -> f
Nested(f) == IF f = "make" THEN {"inner"} ELSE {}          \* functions defined in f's body
J(a, b) == a \o "." \o b
Orig(f) == <<"orig", f>>
Var(f) == <<"var", f>>
VarNested(f, n) == <<"varnested", J(f, n)>>                  \* code object nested in f's variant
Codes == {Orig(f) : f \in Fns} \cup {Var(f) : f \in Fns} \cup {VarNested("make", "inner")}
\* paths: every function's qualified name, plus the bare names the hook may invent ("open")
Paths == Fns \cup {Bare(f) : f \in Fns}
State0 == [cur |-> [p \in Paths |-> IF p \in Fns THEN Orig(p) ELSE <<"none">>],
           back |-> [c \in Codes |-> IF c[1] = "orig" THEN {c[2]} ELSE {}],
           code |-> [f \in Fns |-> Orig(f)], count |-> [f \in Fns |-> 0], built |-> {}, fixed |-> {}]
\* registering code c (with its nested code objects nc(n)) as if defined at path `at`
Register(st, at, c, nc(_), g) ==
  LET ps == {at} \cup {J(at, n) : n \in Nested(g)}
      codeAt(p) == IF p = at THEN c ELSE nc(CHOOSE n \in Nested(g) : J(at, n) = p)
  IN [st EXCEPT !.cur = [p \in Paths |-> IF p \in ps THEN codeAt(p) ELSE st.cur[p]],
                !.back = [x \in Codes |-> st.back[x] \cup {p \in ps : codeAt(p) = x}]]
Hook(st, g) == Register(st, Bare(g), Var(g), LAMBDA n : VarNested(g, n), g)
Assim(st, g, filePrefix) == Register(st, IF filePrefix THEN Bare(g) ELSE g, Orig(g), LAMBDA n : Orig(J(g, n)), g)
\* mechanism selectors: "tree" = as it is; "assim-first" = the seeded reordering; "none" = nothing is registered
Transform(st, g, mech) ==
  CASE mech = "tree" -> Assim(Hook(st, g), g, TRUE)
    [] mech = "assim-first" -> Hook(Assim(st, g, TRUE), g)
    [] mech = "none" -> st
Apply(st, g, new) ==
  LET moved == st.back[st.code[g]]
  IN [st EXCEPT !.cur = [p \in Paths |-> IF p \in moved THEN new ELSE st.cur[p]],
                !.back = [x \in Codes |-> IF x = new THEN st.back[x] \cup moved ELSE st.back[x]],
                !.code = [st.code EXCEPT ![g] = new]]
\* a function tooled in place (st.fixed) is left alone by later probes (_tooler: fully tooled, no stack)
ActOp(st, g, mech) ==
  IF g \in st.fixed THEN st ELSE
  LET st1 == IF g \in st.built THEN st ELSE Transform(st, g, mech)
      st2 == Apply(st1, g, Var(g))
  IN [st2 EXCEPT !.count = [st.count EXCEPT ![g] = @ + 1], !.built = st.built \cup {g}]
\* tooled.inplace(g): transform(), update_cache_entry(g, old code, new code), g.__code__ = new code - for good
InplaceOp(st, g) ==
  LET st1 == Apply(Transform(st, g, "tree"), g, Var(g))
  IN [st1 EXCEPT !.built = @ \cup {g}, !.fixed = @ \cup {g}]
\* pop() calls _apply every time: the current code is "installed" again, which re-asserts all of its paths
DeactOp(st, g) ==
  IF g \in st.fixed THEN st ELSE
  LET st1 == Apply(st, g, IF st.count[g] = 1 THEN Orig(g) ELSE Var(g))
  IN [st1 EXCEPT !.count = [st.count EXCEPT ![g] = @ - 1]]
ResolveSet(st, p) == {f \in Fns : st.code[f] = st.cur[p]}
\* what select('<ref of f> > v').element.name answers: the function, or "ERR" (none / ambiguous)
ResolveKey(st, f) == LET r == ResolveSet(st, f) IN IF Cardinality(r) = 1 THEN CHOOSE x \in r : TRUE ELSE "ERR"
ViolKind(st, f) == IF \E g \in ResolveSet(st, f) : g # f /\ Bare(g) = Bare(f) THEN "NamesakeRedirected"
                   ELSE IF ResolveSet(st, f) = {} THEN "Unresolvable" ELSE "OtherFunction"
=============================================================================
