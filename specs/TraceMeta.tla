---------------------------------- MODULE TraceMeta ----------------------------------
(* C06 on skeleton programs: the merged stream of probes on every meta-variable of the   *)
(* program, recorded on one control-flow path, against the meta-events ProgSem derives    *)
(* from the IR and the twin's log of the same path.                                       *)
EXTENDS ProgSem, Json, IOUtils, TLCExt
Cases == JsonDeserialize(IOEnv.TRACE_FILE)
VARIABLES cid, done
Same(exp, got) == Len(exp) = Len(got) /\ \A i \in DOMAIN exp : exp[i][1] = got[i][1] /\ (exp[i][2] = "?" \/ exp[i][2] = got[i][2])
RECURSIVE FirstBad(_, _, _)
FirstBad(exp, got, i) == IF i > Len(exp) \/ i > Len(got) THEN i
                         ELSE IF exp[i][1] = got[i][1] /\ (exp[i][2] = "?" \/ exp[i][2] = got[i][2]) THEN FirstBad(exp, got, i + 1) ELSE i
Verdict(c) ==
  LET A == Activation(c.prog, c.reflog) IN
  IF A.comp.c = "drift" \/ A.pos # A.loglen + 1 THEN <<"Drift", IF A.comp.c = "drift" THEN A.comp.why ELSE "log not consumed", "">>
  ELSE LET all == IF c.only = "" THEN A.out ELSE SelectSeq(A.out, LAMBDA x : x[1] = c.only)   \* one meta-variable probed alone
           strict == SelectSeq(all, LAMBDA x : x[3] # "superseded")       \* what the property owes
           nofall == SelectSeq(strict, LAMBDA x : x[3] # "falloff")
           withsup == SelectSeq(all, LAMBDA x : x[3] # "falloff")
       IN IF Same(strict, c.merged) THEN <<"ok", "", "">>
          ELSE IF Same(nofall, c.merged) THEN <<"FallOffValue", "", "">>
          ELSE IF Same(all, c.merged) \/ Same(withsup, c.merged) THEN <<"SupersededReturnValue", "", "">>
          ELSE LET k == FirstBad(nofall, c.merged, 1)
               IN <<"MetaEvents", IF k <= Len(nofall) THEN nofall[k][1] ELSE "end", IF k <= Len(c.merged) THEN c.merged[k][1] ELSE "end">>
Init == cid \in 1..Len(Cases) /\ done = FALSE
Check == ~done /\ done' = TRUE /\ UNCHANGED cid
Spec == Init /\ [][Check]_<<cid, done>>
Report == done => LET v == Verdict(Cases[cid]) IN v[1] # "ok" => PrintT(<<"FAIL", Cases[cid].id, v[1], v[2], v[3]>>)
=============================================================================
