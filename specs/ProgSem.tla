---------------------------------- MODULE ProgSem ----------------------------------
(* Semantics of the statement IR of the skeleton programs (harness/ir.py), written as   *)
(* an interpreter that follows the log of the *twin* run: every data-dependent decision  *)
(* (condition, next/stop, raises, driver action at a yield) is read off the log, every    *)
(* observable event the program must produce is checked against it, and the meta-events   *)
(* a probed activation owes (C06) are emitted:                                            *)
(*    #enter . ( bindings | #loop_X ... #endloop_X | #yield #receive )* . (#value | #error) . #exit *)
(*  - #loop_X / #endloop_X once per iteration, on every way of leaving the iteration       *)
(*  - #value v exactly when the activation completes normally (explicit return, return     *)
(*    from finally, falling off the end = None, generator exhaustion = its return value)   *)
(*  - #error e exactly when it ends by raising (GeneratorExit on close included)           *)
(*  - #yield v then, on resumption, #receive sent                                          *)
(* A log that the interpreter cannot follow yields completion "drift": the specification   *)
(* of Python's control flow disagrees with real Python (never blamed on ptera).            *)
EXTENDS Integers, Sequences, FiniteSets, TLC

Norm == [c |-> "norm"]
Brk == [c |-> "brk"]
Cont == [c |-> "cont"]
Ret(v) == [c |-> "ret", v |-> v]
Exc(e) == [c |-> "exc", e |-> e]
Drift(why) == [c |-> "drift", why |-> why]
Str(n) == ToString(n)

\* state: [log, pos, out, env]   (env: function name -> last bound value, "?" when unknown)
Ev(S) == IF S.pos <= Len(S.log) THEN S.log[S.pos] ELSE <<"<end>", "", "", "">>
Adv(S) == [S EXCEPT !.pos = @ + 1]
Out(S, name, val, tag) == [S EXCEPT !.out = Append(@, <<name, val, tag>>)]
Lookup(S, v) == IF v \in DOMAIN S.env THEN S.env[v] ELSE "?"
SetEnv(S, v, val) == [S EXCEPT !.env = (v :> val) @@ @]
R3(S, v, comp) == [S |-> S, v |-> v, comp |-> comp]
R2(S, comp) == [S |-> S, comp |-> comp]
IsNorm(r) == r.comp.c = "norm"

\* expect one log event of the given kind at the given site
Expect(S, kind, site) == Ev(S)[1] = kind /\ (site = "" \/ Ev(S)[2] = site)
\* consume the bind events the twin reports for the names, in order
RECURSIVE Binds(_, _)
Binds(S, names) ==
  IF names = <<>> THEN R2(S, Norm)
  ELSE IF Expect(S, "bind", Head(names)) THEN Binds(SetEnv(Adv(S), Head(names), Ev(S)[3]), Tail(names))
  ELSE R2(S, Drift("bind " \o Head(names)))

RECURSIVE TargetNames(_)
TargetNames(t) == IF t.t \in {"name", "star"} THEN <<t.v>>
                  ELSE IF t.t = "tuple" THEN LET RECURSIVE Cat(_)
                                                 Cat(i) == IF i > Len(t.elts) THEN <<>> ELSE TargetNames(t.elts[i]) \o Cat(i + 1)
                                             IN Cat(1)
                  ELSE <<>>
Truthy(v) == v \notin {"0", "None", "False", ""}

\* ------------------------------------------------------------------ expressions
RECURSIVE Eval(_, _), EvalSeq(_, _, _)
Eval(e, S) ==
  CASE e.e = "site" ->
         IF Expect(S, "eval", Str(e.k)) THEN R3(Adv(S), Ev(S)[3], Norm)
         ELSE IF Expect(S, "raise", Str(e.k)) THEN R3(Adv(S), "", Exc("exc:" \o Str(e.k)))
         ELSE R3(S, "", Drift("site " \o Str(e.k)))
    [] e.e = "read" -> R3(S, Lookup(S, e.v), Norm)
    [] e.e \in {"const", "mlstr"} -> R3(S, "?", Norm)
    [] e.e = "walrus" ->
         LET r == Eval(e.x, S) IN
         IF ~IsNorm(r) THEN r
         ELSE LET b == Binds(r.S, <<e.v>>) IN R3(b.S, r.v, b.comp)
    [] e.e = "add" ->
         LET l == Eval(e.l, S) IN IF ~IsNorm(l) THEN l
         ELSE LET r == Eval(e.r, l.S) IN IF ~IsNorm(r) THEN r ELSE R3(r.S, "?", Norm)
    [] e.e = "tupd" -> LET r == EvalSeq(e.elts, 1, S) IN R3(r.S, "?", r.comp)
    [] e.e = "useq" -> IF Expect(S, "useq", Str(e.k)) THEN R3(Adv(S), "?", Norm) ELSE R3(S, "", Drift("useq"))
    [] e.e = "callinner" -> Eval([e |-> "site", k |-> e.k], S)      \* the nested function runs: its own bindings are its own business
    [] e.e = "headof" -> IF Expect(S, "head", "") THEN R3(Adv(S), "?", Norm) ELSE R3(S, "", Drift("head"))
    [] e.e = "obj" -> IF Expect(S, "obj", Str(e.k)) THEN R3(Adv(S), "obj:" \o Str(e.k), Norm) ELSE R3(S, "", Drift("obj"))
    [] e.e = "acc" -> IF Expect(S, "acc", Str(e.k)) THEN R3(Adv(S), "acc:" \o Str(e.k), Norm) ELSE R3(S, "", Drift("acc"))
    [] e.e = "call" ->
         LET r == EvalSeq(e.args, 1, S) IN
         IF ~IsNorm(r) THEN R3(r.S, "", r.comp)
         ELSE IF Expect(r.S, "call", Str(e.k)) THEN R3(Adv(r.S), "None", Norm) ELSE R3(r.S, "", Drift("call " \o Str(e.k)))
    [] e.e = "lambda" -> Eval(e.x, S)
    [] e.e = "comp2" ->      \* [w for v in IT(k) for w in (v, v)] : only the outer iteration is observable
         IF ~Expect(S, "iter", Str(e.k)) THEN R3(S, "", Drift("comp2 iter"))
         ELSE LET RECURSIVE Loop2(_)
                  Loop2(T) == IF Expect(T, "next", Str(e.k)) THEN Loop2(Adv(T))
                              ELSE IF Expect(T, "stop", Str(e.k)) THEN R3(Adv(T), "?", Norm)
                              ELSE IF Expect(T, "raise", Str(e.k)) THEN R3(Adv(T), "", Exc("exc:" \o Str(e.k)))
                              ELSE R3(T, "", Drift("comp2"))
              IN Loop2(Adv(S))
    [] e.e = "comp" ->
         IF ~Expect(S, "iter", Str(e.k)) THEN R3(S, "", Drift("comp iter"))
         ELSE LET RECURSIVE Loop(_)
                  Loop(T) == IF Expect(T, "next", Str(e.k))
                             THEN LET x == Eval(e.x, Adv(T)) IN IF ~IsNorm(x) THEN x ELSE Loop(x.S)     \* the element expression, per item
                             ELSE IF Expect(T, "stop", Str(e.k)) THEN R3(Adv(T), "?", Norm)
                             ELSE IF Expect(T, "raise", Str(e.k)) THEN R3(Adv(T), "", Exc("exc:" \o Str(e.k)))
                             ELSE R3(T, "", Drift("comp"))
              IN Loop(Adv(S))
    [] e.e = "yield" ->
         LET r == IF e.x.e = "none" THEN R3(S, "None", Norm) ELSE Eval(e.x, S) IN
         IF ~IsNorm(r) THEN r
         ELSE IF ~Expect(r.S, "yielded", "") THEN R3(r.S, "", Drift("yield"))
         ELSE LET S1 == Out(Adv(r.S), "#yield", r.v, "")
                  d == Ev(S1)
              IN IF d[1] # "drive" THEN R3(S1, "", Drift("drive"))
                 ELSE IF d[2] = "next" THEN R3(Out(Adv(S1), "#receive", "None", ""), "None", Norm)
                 ELSE IF d[2] = "send" THEN R3(Out(Adv(S1), "#receive", d[3], ""), d[3], Norm)
                 ELSE IF d[2] = "close" THEN R3(Adv(S1), "", Exc("error:GeneratorExit"))
                 ELSE IF d[2] = "throw" THEN R3(Adv(S1), "", Exc("exc:" \o d[3]))
                 ELSE R3(S1, "", Drift("drive action"))
    [] OTHER -> R3(S, "", Drift("expr " \o e.e))
EvalSeq(es, i, S) == IF i > Len(es) THEN R2(S, Norm)
                     ELSE LET r == Eval(es[i], S) IN IF ~IsNorm(r) THEN R2(r.S, r.comp) ELSE EvalSeq(es, i + 1, r.S)

\* stores into attribute / subscript targets are observable events; names are reported by the twin afterwards
RECURSIVE Store(_, _), Stores(_, _, _)
Store(t, S) ==
  CASE t.t = "tuple" -> Stores(t.elts, 1, S)
    [] t.t = "attr" -> IF Expect(S, "setattr", "") THEN R2(Adv(S), Norm) ELSE R2(S, Drift("setattr"))
    [] t.t = "sub" -> LET r == Eval(t.e, S) IN
                      IF ~IsNorm(r) THEN R2(r.S, r.comp)
                      ELSE IF Expect(r.S, "setitem", "") THEN R2(Adv(r.S), Norm) ELSE R2(r.S, Drift("setitem"))
    [] OTHER -> R2(S, Norm)
RECURSIVE AllNames(_, _)
Stores(ts, i, S) == IF i > Len(ts) THEN R2(S, Norm)
                    ELSE LET r == Store(ts[i], S) IN IF ~IsNorm(r) THEN r ELSE Stores(ts, i + 1, r.S)
AllNames(ts, i) == IF i > Len(ts) THEN <<>> ELSE TargetNames(ts[i]) \o AllNames(ts, i + 1)

\* ------------------------------------------------------------------ statements
IsScriptExc(e) == \E n \in 0..2000 : e = "exc:" \o Str(n)
Matches(h, e) == h.type = "" \/ (h.type = "ScriptExc" /\ IsScriptExc(e)) \/ (h.type = "NameError" /\ e = "error:NameError")

RECURSIVE Exec(_, _), Block(_, _, _), ForLoop(_, _), WhileLoop(_, _), Handlers(_, _, _, _)
Block(stmts, i, S) ==
  IF i > Len(stmts) THEN R2(S, Norm)
  ELSE LET r == Exec(stmts[i], S) IN IF ~IsNorm(r) THEN r ELSE Block(stmts, i + 1, r.S)
\* one loop event per variable of the loop target (their mutual order is not specified)
RECURSIVE OutAll(_, _, _)
OutAll(S, pre, names) == IF names = <<>> THEN S ELSE OutAll(Out(S, pre \o Head(names), "True", ""), pre, Tail(names))
ForLoop(st, S) ==
  IF Expect(S, "next", Str(st.k))
  THEN LET names == TargetNames(st.t)
           S1 == OutAll(Adv(S), "#loop_", names)
           s0 == Store(st.t, S1)                    \* stores into objects among the loop targets (for o.p in ...)
           b == IF IsNorm(s0) THEN Binds(s0.S, names) ELSE s0
       IN IF ~IsNorm(b) THEN b
          ELSE LET r == Block(st.body, 1, b.S)
                   S2 == IF r.comp.c = "drift" THEN r.S ELSE OutAll(r.S, "#endloop_", names)
               IN IF r.comp.c \in {"norm", "cont"} THEN ForLoop(st, S2)
                  ELSE IF r.comp.c = "brk" THEN R2(S2, Norm)
                  ELSE R2(S2, r.comp)
  ELSE IF Expect(S, "stop", Str(st.k)) THEN Block(st.orelse, 1, Adv(S))
  ELSE IF Expect(S, "raise", Str(st.k)) THEN R2(Adv(S), Exc("exc:" \o Str(st.k)))
  ELSE R2(S, Drift("for " \o Str(st.k)))
WhileLoop(st, S) ==
  IF ~Expect(S, "cond", Str(st.k)) THEN R2(S, Drift("while " \o Str(st.k)))
  ELSE IF Ev(S)[3] = "1"
  THEN LET r == Block(st.body, 1, Adv(S))
       IN IF r.comp.c \in {"norm", "cont"} THEN WhileLoop(st, r.S)
          ELSE IF r.comp.c = "brk" THEN R2(r.S, Norm) ELSE r
  ELSE Block(st.orelse, 1, Adv(S))
Handlers(hs, i, e, S) ==
  IF i > Len(hs) THEN R2(S, Exc(e))
  ELSE IF Matches(hs[i], e)
       THEN LET b == IF hs[i].name = "" THEN R2(S, Norm) ELSE Binds(S, <<hs[i].name>>)
            IN IF ~IsNorm(b) THEN b ELSE Block(hs[i].body, 1, b.S)
       ELSE Handlers(hs, i + 1, e, S)
Exec(st, S) ==
  CASE st.s = "assign" ->
         LET r == Eval(st.e, S) IN
         IF ~IsNorm(r) THEN R2(r.S, r.comp)
         ELSE LET s2 == Stores(st.targets, 1, r.S) IN
              IF ~IsNorm(s2) THEN s2 ELSE Binds(s2.S, AllNames(st.targets, 1))
    [] st.s = "aug" ->
         LET r == Eval(st.e, S) IN
         IF ~IsNorm(r) THEN R2(r.S, r.comp)
         ELSE LET S1 == IF Expect(r.S, "iadd", "") THEN Adv(r.S) ELSE r.S
                  s2 == Store(st.t, S1)
              IN IF ~IsNorm(s2) THEN s2 ELSE Binds(s2.S, TargetNames(st.t))
    [] st.s = "ann" ->
         IF st.e.e = "none" THEN R2(S, Norm)
         ELSE LET r == Eval(st.e, S) IN IF ~IsNorm(r) THEN R2(r.S, r.comp) ELSE Binds(r.S, <<st.v>>)
    [] st.s = "expr" -> LET r == Eval(st.e, S) IN R2(r.S, r.comp)
    [] st.s = "for" -> IF Expect(S, "iter", Str(st.k)) THEN ForLoop(st, Adv(S)) ELSE R2(S, Drift("iter " \o Str(st.k)))
    [] st.s = "while" -> WhileLoop(st, S)
    [] st.s = "if" ->
         IF "cx" \in DOMAIN st
         THEN LET r == Eval(st.cx, S) IN
              IF ~IsNorm(r) THEN R2(r.S, r.comp) ELSE Block(IF Truthy(r.v) THEN st.body ELSE st.orelse, 1, r.S)
         ELSE IF ~Expect(S, "cond", Str(st.k)) THEN R2(S, Drift("if " \o Str(st.k)))
         ELSE Block(IF Ev(S)[3] = "1" THEN st.body ELSE st.orelse, 1, Adv(S))
    [] st.s = "try" ->
         LET b == Block(st.body, 1, S)
             h == IF b.comp.c = "exc" THEN Handlers(st.handlers, 1, b.comp.e, b.S)
                  ELSE IF b.comp.c = "norm" THEN Block(st.orelse, 1, b.S)
                  ELSE b
         IN IF h.comp.c = "drift" \/ st.final = <<>> THEN h
            ELSE LET f == Block(st.final, 1, h.S)
                     n0 == Len(h.S.out)
                     lastret == {i \in 1..n0 : h.S.out[i][1] = "#value" /\ h.S.out[i][3] = "ret"}
                     sup == IF h.comp.c = "ret" /\ f.comp.c \notin {"norm", "drift"} /\ lastret # {}
                            THEN LET m == CHOOSE i \in lastret : \A j \in lastret : j <= i
                                 IN [f.S EXCEPT !.out = [@ EXCEPT ![m] = <<@[1], @[2], "superseded">>]]
                            ELSE f.S
                 IN IF f.comp.c = "norm" THEN R2(f.S, h.comp) ELSE R2(sup, f.comp)      \* an abrupt finally replaces the pending completion
    [] st.s = "with" ->
         IF ~(Expect(S, "eval", Str(st.k)) /\ Expect(Adv(S), "cm_enter", Str(st.k))) THEN R2(S, Drift("with " \o Str(st.k)))
         ELSE LET b == IF st.t = "" THEN R2(Adv(Adv(S)), Norm) ELSE Binds(Adv(Adv(S)), <<st.t>>)
              IN IF ~IsNorm(b) THEN b
                 ELSE LET r == Block(st.body, 1, b.S)
                      IN IF r.comp.c = "drift" THEN r
                         ELSE IF Expect(r.S, "cm_exit", Str(st.k))
                              THEN R2(Adv(r.S), IF st.sup /\ r.comp.c = "exc" THEN Norm ELSE r.comp)   \* a manager may swallow the exception
                              ELSE R2(r.S, Drift("cm_exit"))
    [] st.s = "match" ->      \* match (E(k1), E(k2)): case (a, b): body  - the capture patterns bind a, then b
         LET r1 == Eval([e |-> "site", k |-> st.k1], S) IN
         IF ~IsNorm(r1) THEN R2(r1.S, r1.comp)
         ELSE LET r2 == Eval([e |-> "site", k |-> st.k2], r1.S) IN
              IF ~IsNorm(r2) THEN R2(r2.S, r2.comp)
              ELSE LET b == Binds(r2.S, <<st.a, st.b>>) IN IF ~IsNorm(b) THEN b ELSE Block(st.body, 1, b.S)
    [] st.s \in {"import", "from"} ->
         Binds(S, << IF st.as # "" THEN st.as ELSE IF st.s = "from" THEN st.name ELSE st.first >>)
    [] st.s = "return" ->      \* the value event belongs to the return statement (inside the loop brackets it leaves)
         IF st.e.e = "none" THEN R2(Out(S, "#value", "None", "ret"), Ret("None"))
         ELSE LET r == Eval(st.e, S) IN IF ~IsNorm(r) THEN R2(r.S, r.comp) ELSE R2(Out(r.S, "#value", r.v, "ret"), Ret(r.v))
    [] st.s = "mayraise" ->
         IF Expect(S, "pass", Str(st.k)) THEN R2(Adv(S), Norm)
         ELSE IF Expect(S, "raise", Str(st.k)) THEN R2(Adv(S), Exc("exc:" \o Str(st.k)))
         ELSE R2(S, Drift("mayraise " \o Str(st.k)))
    [] st.s = "break" -> R2(S, Brk)
    [] st.s = "continue" -> R2(S, Cont)
    [] st.s = "seen" -> IF Expect(S, "seen", st.v) THEN R2(Adv(S), Norm) ELSE R2(S, Drift("seen " \o st.v))
    [] st.s \in {"pass", "def", "class", "del", "global", "nonlocal", "annattr"} -> R2(S, Norm)
    [] OTHER -> R2(S, Drift("stmt " \o st.s))

\* one activation: the meta-events it owes and how it completes
Activation(prog, log) ==
  LET S0 == [log |-> log, pos |-> 1, out |-> << <<"#enter", "True", "">> >>, env |-> <<>>]
      \* the closure variables the function declares nonlocal are reported first, with the value they have at entry
      RECURSIVE Lead(_)
      Lead(i) == IF i <= Len(prog.body) /\ prog.body[i].s = "nonlocal" THEN <<prog.body[i].v>> \o Lead(i + 1) ELSE <<>>
      p == Binds(S0, Lead(1) \o prog.params)
      r == IF ~IsNorm(p) THEN p ELSE Block(prog.body, 1, p.S)
      S1 == CASE r.comp.c = "norm" -> Out(r.S, "#value", "None", "falloff")
              [] r.comp.c = "ret" -> r.S
              [] r.comp.c = "exc" -> Out(r.S, "#error", r.comp.e, "")
              [] OTHER -> r.S
  IN [comp |-> r.comp, out |-> IF r.comp.c = "drift" THEN S1.out ELSE Append(S1.out, <<"#exit", "True", "">>),
      pos |-> IF S1.pos = Len(log) /\ log[Len(log)][1] = "global" THEN S1.pos + 1 ELSE S1.pos, loglen |-> Len(log)]
=============================================================================
