INIT InitX
NEXT Next
CONSTANTS MaxOps = 6  UseGens = {"g1", "g2"}
CONSTRAINT Collect
POSTCONDITION Report
CHECK_DEADLOCK FALSE
