CONSTANT MaxLen = 3
INIT InitX
NEXT Next
CONSTRAINT Collect
INVARIANT OnlyKnownSignature
INVARIANT NothingBeforeStart
INVARIANT EnterWhenStarted
INVARIANT NoExitBeforeEnd
INVARIANT SilentAfterExit
INVARIANT BalancedWhileRunning
INVARIANT SuspendedOwesReceive
INVARIANT StartedAgrees
POSTCONDITION Report
CHECK_DEADLOCK FALSE
