CONSTANT Mechanism = "native"
SPECIFICATION Spec
CONSTRAINT Progress
POSTCONDITION Post
CHECK_DEADLOCK FALSE
