CONSTANT Mechanism = "native"
CONSTANTS LoopTargetsSupported = FALSE  WithRewritten = FALSE  FallOffRewritten = FALSE  MatchCapturesKnown = FALSE
INIT InitX
NEXT Next
CONSTRAINT Collect
INVARIANT LawsOrSignature
INVARIANT NoOtherDifference
POSTCONDITION Report
CHECK_DEADLOCK FALSE
