----------------------------------- MODULE Xform -----------------------------------
(* M level of the AST rewrite for assignment statements (transform.PteraTransformer:      *)
(* visit_Assign / _decompose / make_interaction), against Python's own semantics of the   *)
(* same statement, at the granularity of observable primitive actions:                    *)
(*     eval k            an opaque sub-expression with site number k is evaluated          *)
(*     unpack src n star the value src is unpacked by ITERATION into n targets             *)
(*     getitem src i     the value src is indexed with the constant i                      *)
(*     bind v src        the local v is bound to the value src                             *)
(*     setattr o a src / setitem o src      stores into the object named o                 *)
(*     interact v key src   frame.interact(v, key, ..., src, ...)   (key: none/index/attr) *)
(*     syntaxerror       the rewritten function does not compile                           *)
(* Values are named by paths: <<"V">> is the value of the right-hand side, Append(p, i)    *)
(* its i-th element, Append(p, "rest") what a starred target receives.                     *)
(*                                                                                         *)
(* A level (C01, C02 for one statement):                                                   *)
(*   Transparent : the rewritten statement performs Python's actions, in Python's order,   *)
(*                 once the interactions are erased                                        *)
(*   Stream      : its interactions with key none are exactly Python's bindings of the     *)
(*                 instrumented names, in order, with the value bound                      *)
(* TLC evaluates both for every statement shape of a bounded space and every set of        *)
(* instrumented names, and classifies each difference (Signature); the same shapes are     *)
(* rendered, run for real (plain / instrumented) and compared with Py / X by               *)
(* TraceXformMech.                                                                         *)
EXTENDS Integers, Sequences, FiniteSets, TLC, SequencesExt

\* ------------------------------------------------------------------ shapes (the IR of harness/ir.py)
Nm(v) == [t |-> "name", v |-> v]
St(v) == [t |-> "star", v |-> v]
At(v, a) == [t |-> "attr", v |-> v, a |-> a]
Sb(v, k) == [t |-> "sub", v |-> v, e |-> [e |-> "site", k |-> k]]
Tp(elts) == [t |-> "tuple", elts |-> elts]
Cat(f(_), n) == FlattenSeq([i \in 1..n |-> f(i)])

\* ------------------------------------------------------------------ Python
PyEval(e) == IF e.e \in {"site", "ls"} THEN << <<"eval", e.k>> >> ELSE <<>>
StarIx(t) == LET S == {i \in DOMAIN t.elts : t.elts[i].t = "star"} IN IF S = {} THEN 0 ELSE CHOOSE i \in S : TRUE
\* index of the element the i-th target receives; a starred target takes two elements (the values of the shape programs
\* have exactly one element more than there are targets when one of them is starred)
EltIx(t, i) == IF StarIx(t) # 0 /\ i > StarIx(t) THEN i ELSE i - 1
RECURSIVE PyStore(_, _)
PyStore(t, src) ==
  CASE t.t \in {"name", "star"} -> << <<"bind", t.v, src>> >>
    [] t.t = "attr" -> << <<"setattr", t.v, t.a, src>> >>
    [] t.t = "sub" -> PyEval(t.e) \o << <<"setitem", t.v, src>> >>
    [] t.t = "tuple" -> << <<"unpack", src, Len(t.elts), StarIx(t)>> >>
                        \o Cat(LAMBDA i : PyStore(t.elts[i], Append(src, IF t.elts[i].t = "star" THEN "rest" ELSE ToString(EltIx(t, i)))), Len(t.elts))
Py(st) == PyEval(st.e) \o Cat(LAMBDA i : PyStore(st.targets[i], <<"V">>), Len(st.targets))

\* ------------------------------------------------------------------ ptera's rewrite
\* I: set of instrumented names (should_instrument), "*" \in I: everything (tooled / $x)
Instr(I, v) == "*" \in I \/ v \in I
RECURSIVE XAssign(_, _, _, _)
\* visit_Assign on Assign(targets, value): valActs = actions of evaluating the (visited) value, src = its name
XAssign(targets, valActs, src, I) ==
  IF Len(targets) > 1
  THEN \* _decompose(targets, lambda value, i: value): tmp = value; then one assignment per target, left to right
       valActs \o Cat(LAMBDA i : XAssign(<<targets[i]>>, <<>>, src, I), Len(targets))
  ELSE LET t == targets[1] IN
       CASE t.t = "tuple" ->
              \* _decompose(elts, lambda value, i: value[i]): tmp = value; elt_i = tmp[i]
              valActs \o Cat(LAMBDA i : XAssign(<<t.elts[i]>>, << <<"getitem", src, i - 1>> >>, Append(src, ToString(i - 1)), I), Len(t.elts))
         [] t.t = "name" ->
              valActs \o (IF Instr(I, t.v) THEN << <<"interact", t.v, "none", src>> >> ELSE <<>>) \o << <<"bind", t.v, src>> >>
         [] t.t = "sub" ->
              \* o[idx] = frame.interact('o', Key('index', <copy of idx>), None, value, True): the copy is evaluated first
              IF Instr(I, t.v) THEN PyEval(t.e) \o valActs \o << <<"interact", t.v, "index", src>> >> \o PyEval(t.e) \o << <<"setitem", t.v, src>> >>
              ELSE valActs \o PyEval(t.e) \o << <<"setitem", t.v, src>> >>
         [] t.t = "attr" ->
              valActs \o (IF Instr(I, t.v) THEN << <<"interact", t.v, "attr", src>> >> ELSE <<>>) \o << <<"setattr", t.v, t.a, src>> >>
         [] t.t = "star" ->
              \* Assign(targets=[Starred(x)], value=tmp[i]) : "starred assignment target must be in a list or tuple"
              << <<"syntaxerror">> >>
HasSyntaxError(acts) == \E i \in DOMAIN acts : acts[i][1] = "syntaxerror"
XIndex(st, I) == LET a == XAssign(st.targets, PyEval(st.e), <<"V">>, I) IN IF HasSyntaxError(a) THEN << <<"syntaxerror">> >> ELSE a

\* ---- the rewrite since the repair of the three difference classes (visit_Assign / _assign_from / make_interaction):
\*   one plain target        : target = interact(value)
\*   otherwise               : tmp = value; then every target is assigned from tmp, left to right (_assign_from):
\*     a tuple / list target : Python itself unpacks tmp into temporaries, one level at a time (same protocol, same
\*                             errors); each element is then assigned (or unpacked further) in order, a starred one as its name
\*     a subscript target    : v = value; k = index; o[k] = interact('o', Key('index', k), None, v, True): value, then index, once
XLeaf(t, valActs, src, I) ==
  CASE t.t \in {"name", "star"} -> valActs \o (IF Instr(I, t.v) THEN << <<"interact", t.v, "none", src>> >> ELSE <<>>) \o << <<"bind", t.v, src>> >>
    [] t.t = "sub" -> valActs \o PyEval(t.e) \o (IF Instr(I, t.v) THEN << <<"interact", t.v, "index", src>> >> ELSE <<>>) \o << <<"setitem", t.v, src>> >>
    [] t.t = "attr" -> valActs \o (IF Instr(I, t.v) THEN << <<"interact", t.v, "attr", src>> >> ELSE <<>>) \o << <<"setattr", t.v, t.a, src>> >>
RECURSIVE XFrom(_, _, _)
XFrom(t, src, I) ==
  IF t.t = "tuple"
  THEN << <<"unpack", src, Len(t.elts), StarIx(t)>> >>
       \o Cat(LAMBDA i : XFrom(t.elts[i], Append(src, IF t.elts[i].t = "star" THEN "rest" ELSE ToString(EltIx(t, i))), I), Len(t.elts))
  ELSE XLeaf(t, <<>>, src, I)
XNative(st, I) == IF Len(st.targets) = 1 /\ st.targets[1].t # "tuple" THEN XLeaf(st.targets[1], PyEval(st.e), <<"V">>, I)
                  ELSE PyEval(st.e) \o Cat(LAMBDA i : XFrom(st.targets[i], <<"V">>, I), Len(st.targets))
\* Mechanism = "index": the tree before fixes 8e2b697, f587b5f (unpacking rewritten to indexing, starred targets uncompilable, the index of a subscript
\* store evaluated twice); "native": the repaired tree
CONSTANT Mechanism
X(st, I) == IF Mechanism = "index" THEN XIndex(st, I) ELSE XNative(st, I)

\* ------------------------------------------------------------------ A level
Erase(acts) == SelectSeq(acts, LAMBDA a : a[1] # "interact")
NoProtocol(acts) == SelectSeq(acts, LAMBDA a : a[1] \notin {"unpack", "getitem"})
Transparent(st, I) == Erase(X(st, I)) = Py(st)
PyBinds(st, I) == LET b == SelectSeq(Py(st), LAMBDA a : a[1] = "bind" /\ Instr(I, a[2])) IN [i \in DOMAIN b |-> <<b[i][2], b[i][3]>>]
XStream(st, I) == LET b == SelectSeq(X(st, I), LAMBDA a : a[1] = "interact" /\ a[3] = "none") IN [i \in DOMAIN b |-> <<b[i][2], b[i][4]>>]
Stream(st, I) == XStream(st, I) = PyBinds(st, I)
\* classification of the differences
RECURSIVE HasTuple(_), HasStar(_)
HasTuple(t) == t.t = "tuple"
HasStar(t) == t.t = "star" \/ (t.t = "tuple" /\ \E i \in DOMAIN t.elts : HasStar(t.elts[i]))
EvalCount(acts, k) == Cardinality({i \in DOMAIN acts : acts[i] = <<"eval", k>>})
Signature(st, I) ==
  LET x == X(st, I)  p == Py(st) IN
  IF HasSyntaxError(x) THEN {"StarredTarget"}
  ELSE (IF \E i \in DOMAIN x : x[i][1] = "getitem" THEN {"UnpackByIndex"} ELSE {}) \cup
       (IF \E i \in DOMAIN x : x[i][1] = "eval" /\ EvalCount(x, x[i][2]) > EvalCount(p, x[i][2]) THEN {"SubscriptIndexTwice"} ELSE {}) \cup
       \* anything that remains once the two known classes are set aside
       (IF NoProtocol(Erase(x)) # NoProtocol(p)
           /\ ~(\E i \in DOMAIN x : x[i][1] = "eval" /\ EvalCount(x, x[i][2]) > EvalCount(p, x[i][2])) THEN {"OtherOrder"} ELSE {}) \cup
       (IF ~Stream(st, I) THEN {"StreamDiffers"} ELSE {})

\* ------------------------------------------------------------------ bounded shape space
Atoms == {Nm("a"), Nm("b"), At("o", "p"), Sb("o", 7)}
Elts1 == Atoms \cup {St("c")}
Seqs(S, n) == UNION {[1..k -> S] : k \in 1..n}
OneStar(s) == Cardinality({i \in DOMAIN s : s[i].t = "star"}) <= 1
T1 == {Tp(s) : s \in {x \in Seqs(Elts1, 3) : OneStar(x)}}
Inner == {Tp(<<Nm("a"), Nm("b")>>), Tp(<<Nm("b"), St("c")>>), Tp(<<Sb("o", 8)>>)}
T2 == {Tp(s) : s \in {x \in Seqs(Atoms \cup Inner, 2) : \E i \in DOMAIN x : x[i] \in Inner}}
Targets == Atoms \cup T1 \cup T2
Value == [e |-> "ls", k |-> 1]
Stmts == {[s |-> "assign", targets |-> <<t>>, e |-> Value] : t \in Targets}
         \cup {[s |-> "assign", targets |-> <<t, u>>, e |-> Value] : t \in Targets, u \in Atoms}
         \cup {[s |-> "assign", targets |-> <<u, t>>, e |-> Value] : t \in Targets, u \in Atoms}
InstrSets == {{"*"}} \cup SUBSET {"a", "b", "c", "o"}
=============================================================================
