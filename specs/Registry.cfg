SPECIFICATION Spec
CONSTANTS MaxOps = 6  HelperDiscard = TRUE
INVARIANT AlwaysResolves
INVARIANT Export
CHECK_DEADLOCK FALSE
