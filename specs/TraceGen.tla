---------------------------------- MODULE TraceGen ----------------------------------
(* Real generator/overlay histories validated against the A level of GenMech; the M     *)
(* level runs alongside so that a rejected observation that equals the token model's     *)
(* prediction is recognised as the known deviation and anything else is new.             *)
EXTENDS GenMech, Json, IOUtils, TLCExt, SequencesExt
Traces == JsonDeserialize(IOEnv.TRACE_FILE)
VARIABLES tid, l, a, m, want, mwant, fails
vars == <<tid, l, a, m, want, mwant, fails>>
T == Traces[tid]
S == T.steps[l]
Init == /\ tid \in 1..Len(Traces) /\ l = 1 /\ a = AInit /\ m = MInit
        /\ want = [o \in Ovls |-> 0] /\ mwant = [o \in Ovls |-> 0] /\ fails = <<>> /\ TLCSet(tid, <<0, <<>>>>)
\* probing() objects: the stream of a probe that has been left is completed - a stale handler of it that the token
\* mechanism leaves installed is called but delivers nothing
Live(a2, o) == IF T.mode \in {"probe", "ovprobe"} /\ ~IsOpen(a2, o) THEN 0 ELSE 1
Mech(m2, mw2) == S.curseen /\ S.cur = m2.cur /\ \A o \in Ovls : Len(S.recv[o]) = mw2[o]
Clauses(a2, w2) ==
  (IF ~S.curseen \/ S.cur = ACur(a2) THEN {}
   ELSE (IF \E i \in DOMAIN S.cur : S.cur[i] \in {"K1", "K2"} THEN {"DriverInheritsGenCollection"} ELSE {}) \cup
        (IF Count(S.cur, "K3") # Count(ACur(a2), "K3") THEN {"EnclosingFunctionContext"} ELSE {}) \cup
        (IF \E o \in Ovls : ~IsOpen(a2, o) /\ Count(S.cur, Root(o)) > 0 THEN {"HandlersOfEndedOverlayInstalled"} ELSE {}) \cup
        (IF \E o \in Ovls : IsOpen(a2, o) /\ Count(S.cur, Root(o)) # 1 THEN {"OpenOverlayNotInstalled"} ELSE {}) \cup
        (IF S.cur # ACur(a2) THEN {"HandlersSeenByDriver"} ELSE {})) \cup
  UNION { IF Len(S.recv[o]) = w2[o] THEN {} ELSE IF Len(S.recv[o]) > w2[o] THEN {"ExtraEvent"} ELSE {"EventLost"} : o \in Ovls } \cup
  \* C17 in this world: a stage attached after a probe was left sees nothing, whatever generators were suspended inside it
  (IF \E o \in Ovls : S.late[o] > 0 THEN {"LateStageNotSilent"} ELSE {})
Add(a2, w2, m2, mw2) == fails \o SetToSeq({ [line |-> l, clause |-> c, mech |-> Mech(m2, mw2), op |-> S.op[1]] : c \in Clauses(a2, w2) })
Step ==
  /\ l <= Len(T.steps) /\ l' = l + 1 /\ UNCHANGED tid
  /\ LET op == S.op IN
     CASE op[1] = "enter" ->
            LET a2 == [a EXCEPT !.open = Append(@, op[2])]  m2 == MEnter(m, op[2])
            IN a' = a2 /\ m' = m2 /\ UNCHANGED <<want, mwant>> /\ fails' = Add(a2, want, m2, mwant)
       [] op[1] = "exit" ->
            LET a2 == [a EXCEPT !.open = SelectSeq(@, LAMBDA x : x # op[2])]  m2 == MExit(m, op[2])
            IN a' = a2 /\ m' = m2 /\ UNCHANGED <<want, mwant>> /\ fails' = Add(a2, want, m2, mwant)
       [] op[1] = "drive" ->
            LET a2 == [a EXCEPT !.indrive = TRUE, !.o3d = IsOpen(a, "o3")]  m2 == MDrive(m)
            IN a' = a2 /\ m' = m2 /\ UNCHANGED <<want, mwant>> /\ fails' = Add(a2, want, m2, mwant)
       [] op[1] = "undrive" ->
            LET a2 == [a EXCEPT !.indrive = FALSE]  m2 == MUndrive(m)
            IN a' = a2 /\ m' = m2 /\ UNCHANGED <<want, mwant>> /\ fails' = Add(a2, want, m2, mwant)
       [] op[1] = "new" ->
            LET a2 == [a EXCEPT !.gst[op[2]] = "new"]  m2 == MNew(m, op[2])
            IN a' = a2 /\ m' = m2 /\ UNCHANGED <<want, mwant>> /\ fails' = Add(a2, want, m2, mwant)
       [] op[1] = "next" ->
            LET g == op[2]
                w2 == [o \in Ovls |-> want[o] + ANextFires(a, g, o)]
                r == MNext(m, g)
                mw2 == [o \in Ovls |-> mwant[o] + Live(a, o) * r.f[o]]
                a2 == [a EXCEPT !.gst[g] = ANextState(@)]
            IN a' = a2 /\ m' = r.m /\ want' = w2 /\ mwant' = mw2 /\ fails' = Add(a2, w2, r.m, mw2)
       [] op[1] \in {"close", "drop"} ->
            LET a2 == [a EXCEPT !.gst[op[2]] = "done"]  m2 == MEnd(m, op[2])
            IN a' = a2 /\ m' = m2 /\ UNCHANGED <<want, mwant>> /\ fails' = Add(a2, want, m2, mwant)
       [] op[1] = "callg" ->
            LET w2 == [o \in Ovls |-> want[o] + ACallFires(a, o)]
                mw2 == [o \in Ovls |-> mwant[o] + Live(a, o) * Fires(m.cur, o)]
            IN UNCHANGED <<a, m>> /\ want' = w2 /\ mwant' = mw2
               \* g(y) returns y + 100 whoever listens (overriding probes answer with the value itself)
               /\ fails' = Add(a, w2, m, mw2) \o (IF S.outcome = "ok" /\ S.ret = op[2] + 100 THEN <<>>
                                                   ELSE <<[line |-> l, clause |-> "ReturnValue", mech |-> FALSE, op |-> "callg"]>>)
Spec == Init /\ [][Step]_vars
Progress == TLCSet(tid, <<l - 1, fails>>)
Post == \A i \in 1..Len(Traces) :
          LET r == TLCGet(i) IN
          /\ (r[1] # Len(Traces[i].steps) => PrintT(<<"INCOMPLETE", Traces[i].id, r[1]>>))
          /\ \A k \in DOMAIN r[2] : PrintT(<<"FAIL", Traces[i].id, r[2][k]>>)
=============================================================================
