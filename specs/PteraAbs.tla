--------------------------------- MODULE PteraAbs ---------------------------------
(* Level A: what a user of ptera may rely on, stated over an environment log            *)
(* (activation tree with timed bindings) with no reference to ptera's data structures.  *)
(* Pure operators; TracePtera.tla steps real traces through them, PteraMech.tla checks  *)
(* the mechanism transcription against them.                                            *)
(*                                                                                      *)
(* acts  : sequence of activation records                                               *)
(*           [fn, parent (0 = none), catch, binds : Seq([t, var, val, cats, tab])]           *)
(* stack : sequence of activation ids currently executing (innermost last)              *)
(* selector node : [fn, fcat, caps : Seq(cap), kids : Seq(node)]                        *)
(* cap   : [name ("" = generic), key, tag (0 | 1 = focus | 2 = second focus), cat, cond]*)
EXTENDS Integers, Sequences, FiniteSets, TLC, SequencesExt

TrueV   == 100001
NoneV   == 100002
ExcBase == 200000
ExtBase == 300000
Decline == -1

\* ------------------------------------------------------------------ selectors
RECURSIVE HasFocus(_)
HasFocus(C) == (\E i \in DOMAIN C.caps : C.caps[i].tag = 1) \/ (\E i \in DOMAIN C.kids : HasFocus(C.kids[i]))
\* index of the kid on the focus path, 0 when the focus capture belongs to C itself
FocusKid(C) == IF \E i \in DOMAIN C.kids : HasFocus(C.kids[i])
               THEN CHOOSE i \in DOMAIN C.kids : HasFocus(C.kids[i]) ELSE 0
RECURSIVE FocusNode(_)
FocusNode(C) == IF FocusKid(C) = 0 THEN C ELSE FocusNode(C.kids[FocusKid(C)])
RECURSIVE AllCaps(_)
AllCaps(C) == {C.caps[i] : i \in DOMAIN C.caps} \cup UNION {AllCaps(C.kids[i]) : i \in DOMAIN C.kids}
AllKeys(C) == {c.key : c \in AllCaps(C)}
FocusKey(C) == LET F == FocusNode(C) IN
               IF \E i \in DOMAIN F.caps : F.caps[i].tag = 1
               THEN F.caps[CHOOSE i \in DOMAIN F.caps : F.caps[i].tag = 1].key ELSE ""

\* Meta-variables that are not in a function's variable table: a generic capture never sees them
\* (named rule GenericSeesTableOnly: #enter/#exit/#yield/#receive are in the table, these are not).
\* Every binding record carries `tab`: whether its variable is in the function's variable table.

\* does capture c select the binding b (name rule and tag rule, both per binding)
CapMatches(c, b) ==
  /\ IF c.name = "" THEN b.tab ELSE c.name = b.var
  /\ (c.cat = "" \/ c.cat \in b.cats)

\* ------------------------------------------------------------------ value conditions (C12)
Mod(a, n) == a % n     \* TLC's % is the mathematical modulo for n > 0
\* values are integer codes; FloatBase + n stands for the float n.0 (equal to the int n, a different object of another type)
FloatBase == 400000
IsFloat(v) == v >= FloatBase /\ v < FloatBase + 100000
\* NegBase + n stands for the integer -n
NegBase == 300000
IsNeg(v) == v > NegBase /\ v < NegBase + 100000
Num(v) == IF IsFloat(v) THEN v - FloatBase ELSE IF IsNeg(v) THEN NegBase - v ELSE v
Sat(cd, v0) ==
  LET v == Num(v0) IN
  CASE cd.k = "none"    -> TRUE
    [] cd.k = "eq"      -> v = Num(cd.n) \/ (v0 = TrueV /\ cd.n = 1)         \* the stated value is a code too; True == 1
    [] cd.k = "lt"      -> v < cd.n
    [] cd.k = "gt"      -> v > cd.n
    [] cd.k = "lte"     -> v <= cd.n
    [] cd.k = "gte"     -> v >= cd.n
    [] cd.k = "every"   -> cd.s <= v /\ (cd.hasE => v < cd.e) /\ Mod(v - cd.s, cd.n) = 0
    [] cd.k = "between" -> cd.s <= v /\ v < cd.e

\* a record is a set of <<key, val, name>> triples; conditions apply to the keys already captured
CondOK(R, rec) == \A c \in AllCaps(R) : c.cond.k # "none" =>
                     \A x \in rec : x[1] = c.key => Sat(c.cond, x[2])

\* ------------------------------------------------------------------ activations
RECURSIVE Anc(_, _)
Anc(A, b) == IF A[b].parent = 0 THEN {} ELSE {A[b].parent} \cup Anc(A, A[b].parent)
Desc(A, a) == {b \in DOMAIN A : a \in Anc(A, b)}
Fits(C, A, a) == A[a].fn = C.fn /\ (C.fcat = "" \/ C.fcat \in A[a].fcats)

\* candidates <<key, time, val, name>> from the captures of C in activation a; `skip` = keys left out
OwnC(A, C, a, skip) ==
  UNION { { <<C.caps[i].key, A[a].binds[j].t, A[a].binds[j].val, A[a].binds[j].var>> :
              j \in {y \in DOMAIN A[a].binds : CapMatches(C.caps[i], A[a].binds[y])} } :
          i \in {x \in DOMAIN C.caps : C.caps[x].key \notin skip} }
\* sibling / nested calls named in an outer function's parentheses: every matching activation
\* created under a, at any depth, finished or not
RECURSIVE SubC(_, _, _)
SubC(A, K, a) ==
  UNION { OwnC(A, K, b, {}) \cup UNION { SubC(A, K.kids[i], b) : i \in DOMAIN K.kids } :
          b \in {x \in Desc(A, a) : Fits(K, A, x)} }
\* latest candidate per key -> record triples <<key, val, name>>
Latest(S) == { <<x[1], x[3], x[4]>> : x \in {y \in S : \A z \in S : z[1] = y[1] => z[2] <= y[2]} }

\* ------------------------------------------------------------------ focused selectors (C02, C03)
\* All embeddings of the focus path of R into the live stack `st`, ending at the innermost activation
\* whose binding b triggers; result: set of <<embedding positions, candidate set>>.
\* `skipTrig`: leave the trigger key out of the own captures (the intercept stage supplies the
\* tentative value itself).
RECURSIVE Emb(_, _, _, _, _, _)
Emb(A, st, C, lo, acc, pos) ==
  LET n == Len(st)
      fk == FocusKid(C)
      cand == IF fk = 0 THEN (IF n >= lo THEN {n} ELSE {}) ELSE lo..n
      good == {i \in cand : Fits(C, A, st[i])}
      here(i) == acc \cup OwnC(A, C, st[i], {})
                 \cup UNION { SubC(A, C.kids[k], st[i]) : k \in (DOMAIN C.kids) \ {fk} }
  IN IF fk = 0
     THEN { <<Append(pos, i), here(i)>> : i \in good }
     ELSE UNION { Emb(A, st, C.kids[fk], i + 1, here(i), Append(pos, i)) : i \in good }

TriggerCaps(R, b) == LET F == FocusNode(R) IN
                     {F.caps[i] : i \in {j \in DOMAIN F.caps : F.caps[j].tag > 0 /\ CapMatches(F.caps[j], b)}}

\* records (tagged by embedding so that equal records are counted) delivered to an observing
\* handler on R when binding b has just been appended to the innermost activation
ImmRecs(A, st, R, b) ==
  IF TriggerCaps(R, b) = {} THEN {}
  ELSE LET embs == Emb(A, st, R, 1, {}, <<>>)
           all == { <<e[1], c.key, Latest(e[2])>> : e \in embs, c \in TriggerCaps(R, b) }
       IN { x \in all : CondOK(R, x[3]) }

\* records presented to an overriding handler: as above but with the tentative value under the
\* trigger key (the binding has not been stored yet: A does not contain it)
IcptRecs(A, st, R, var, val, cats, tab) ==
  LET b == [t |-> 0, var |-> var, val |-> val, cats |-> cats, tab |-> tab]
      tc == TriggerCaps(R, b)
  IN IF tc = {} THEN {}
     ELSE LET embs == Emb(A, st, R, 1, {}, <<>>)
              all == { <<e[1], c.key,
                         Latest({y \in e[2] : y[1] # c.key}) \cup {<<c.key, val, var>>}>> : e \in embs, c \in tc }
          IN { x \in all : CondOK(R, x[3]) }

\* ------------------------------------------------------------------ overrides (C04)
RecVal(rec, key) == LET s == {x \in rec : x[1] = key} IN IF s = {} THEN Decline ELSE (CHOOSE x \in s : TRUE)[2]
OvrVal(ovr, rec, fkey) ==
  CASE ovr.k = "const"  -> ovr.c
    \* the harness's override functions decline for values that are not numbers (None, True, exceptions: codes >= 100000)
    [] ovr.k = "addkey" -> IF RecVal(rec, ovr.key) = Decline \/ Num(RecVal(rec, ovr.key)) >= 100000 THEN Decline ELSE RecVal(rec, ovr.key) + ovr.n
    [] ovr.k = "iflt"   -> IF Num(RecVal(rec, fkey)) < ovr.n THEN ovr.c ELSE Decline
    \* the value the program computed itself, as a float: equal to it, yet another object - the substitution must happen
    [] ovr.k = "samefloat" -> IF Num(RecVal(rec, fkey)) < 100000 THEN FloatBase + Num(RecVal(rec, fkey)) ELSE Decline
    [] OTHER            -> Decline

\* ------------------------------------------------------------------ focus-free selectors (C07)
AllOwn(A, C, a) ==
  UNION { { <<C.caps[i].key, A[a].binds[j].t, A[a].binds[j].val>> :
              j \in {y \in DOMAIN A[a].binds : CapMatches(C.caps[i], A[a].binds[y])} } :
          i \in DOMAIN C.caps }
RECURSIVE AllSub(_, _, _)
AllSub(A, K, a) == UNION { AllOwn(A, K, b) \cup UNION { AllSub(A, K.kids[i], b) : i \in DOMAIN K.kids } :
                           b \in {x \in Desc(A, a) : Fits(K, A, x)} }
\* the record a total handler on R owes for the ending activation a: {} or one record
\* {<<key, <<values in the order taken>>>>}
TotalRecs(A, R, a) ==
  LET trip == AllOwn(A, R, a) \cup UNION { AllSub(A, R.kids[i], a) : i \in DOMAIN R.kids }
      keys == {x[1] : x \in trip}
      vals(k) == LET s == SetToSortSeq({<<x[2], x[3]>> : x \in {y \in trip : y[1] = k}}, LAMBDA p, q : p[1] < q[1])
                 IN [i \in DOMAIN s |-> s[i][2]]
      rec == {<<k, vals(k)>> : k \in keys}
      condok == \A c \in AllCaps(R) : c.cond.k # "none" =>
                   \A x \in rec : x[1] = c.key => \A i \in DOMAIN x[2] : Sat(c.cond, x[2][i])
  IN IF Fits(R, A, a) /\ keys = AllKeys(R) /\ condok THEN {rec} ELSE {}

\* ------------------------------------------------------------------ focused selectors forced to total mode (C07)
\* One record per binding of the focus variable and per embedding of the focus path that starts at the ending
\* outermost activation: the single focus value plus the COMPLETE value lists (as of the end of the outermost
\* call) of every other capture of the matched activations and of the sibling calls under them.
RECURSIVE FocusPathNodes(_)
FocusPathNodes(C) == IF FocusKid(C) = 0 THEN <<C>> ELSE <<C>> \o FocusPathNodes(C.kids[FocusKid(C)])
AllOwnNF(A, C, a) ==
  UNION { { <<C.caps[i].key, A[a].binds[j].t, A[a].binds[j].val>> :
              j \in {y \in DOMAIN A[a].binds : CapMatches(C.caps[i], A[a].binds[y])} } :
          i \in {x \in DOMAIN C.caps : C.caps[x].tag # 1} }
ForcedRec(A, R, chain, val) ==
  LET path == FocusPathNodes(R)
      trip == UNION { AllOwnNF(A, path[j], chain[j])
                      \cup UNION { AllSub(A, path[j].kids[k], chain[j]) : k \in (DOMAIN path[j].kids) \ {FocusKid(path[j])} }
                      : j \in DOMAIN path }
      keys == {x[1] : x \in trip}
      vals(k) == LET s == SetToSortSeq({<<x[2], x[3]>> : x \in {y \in trip : y[1] = k}}, LAMBDA p, q : p[1] < q[1])
                 IN [i \in DOMAIN s |-> s[i][2]]
  IN {<<k, vals(k)>> : k \in keys} \cup {<<FocusKey(R), <<val>>>>}
ForcedOK(R, rec) == {x[1] : x \in rec} = AllKeys(R)
                    /\ \A c \in AllCaps(R) : c.cond.k # "none" => \A x \in rec : x[1] = c.key => \A i \in DOMAIN x[2] : Sat(c.cond, x[2][i])

\* feature for known-finding matching: some kid level of R is matched at two nesting depths under a
RECURSIVE NestedKidMatch(_, _, _)
NestedKidMatch(A, K, a) ==
  LET M == {x \in Desc(A, a) : Fits(K, A, x)} IN
  \/ (K.kids # <<>> /\ \E x \in M, y \in M : y \in Desc(A, x))
  \/ \E i \in DOMAIN K.kids : \E x \in M : NestedKidMatch(A, K.kids[i], x)
TotalNested(A, R, a) == \E i \in DOMAIN R.kids : NestedKidMatch(A, R.kids[i], a)

=============================================================================
