-------------------------------- MODULE XformStmtsMC --------------------------------
(* Model checking XformStmts.tla: every statement shape x every instrumented set.        *)
EXTENDS XformStmts, Json
VARIABLES st, I
Init == st \in Stmts2 /\ I \in InstrSets2
Next == UNCHANGED <<st, I>>
Spec == Init /\ [][Next]_<<st, I>>
Sig == Signature2(st, I)
Collect ==
  LET old == TLCGet(1)
      new == {s \in Sig : s \notin DOMAIN old}
  IN IF new = {} THEN TRUE ELSE TLCSet(1, [s \in DOMAIN old \cup new |-> IF s \in DOMAIN old THEN old[s] ELSE <<ToJson(st), ToJson(I)>>])
InitX == Init /\ TLCSet(1, <<>>)
LawsOrSignature == (Transparent2(st, I) /\ Stream2(st, I)) <=> (Sig = {})
NoOtherDifference == "OtherOrder" \notin Sig /\ "StreamDiffers" \notin Sig
\* the loop and with statements are run for real (TraceXformStmts)
Export == (st.s \in {"for", "with"} /\ st.t # NoT /\ ("*" \in I \/ "o" \notin I)) => PrintT(<<"STMT", ToJson(st), ToJson(I)>>)
Report == \A s \in DOMAIN TLCGet(1) : PrintT(<<"SIGNATURE", s, TLCGet(1)[s][1], TLCGet(1)[s][2]>>)
=============================================================================
