---------------------------------- MODULE TraceRefs ----------------------------------
(* C14, real histories: the absolute reference of a function resolves to that very       *)
(* function at every point of the history, activation by reference is accepted, and the   *)
(* streams obtained by reference equal the streams obtained by name; probing leaves no      *)
(* stray binding in the function's module.                                                *)
EXTENDS Integers, Sequences, FiniteSets, TLC, Json, IOUtils, TLCExt, SequencesExt
Traces == JsonDeserialize(IOEnv.TRACE_FILE)
VARIABLES tid, l, active, expect, fails
vars == <<tid, l, active, expect, fails>>
T == Traces[tid]
S == T.steps[l]
Init == /\ tid \in 1..Len(Traces) /\ l = 1 /\ active = {} /\ expect = <<>> /\ fails = <<>>
        /\ TLCSet(tid, <<0, <<>>>>)
F(clause, why) == [line |-> l, clause |-> clause, why |-> why, nactive |-> Cardinality(active)]
\* expect: function probe id -> sequence of values owed
Recv(ex) == IF \A p \in DOMAIN ex : p \in DOMAIN S.recv /\ S.recv[p] = ex[p] THEN <<>> ELSE <<F("Stream", "")>>
Step ==
  /\ l <= Len(T.steps) /\ l' = l + 1 /\ UNCHANGED tid
  /\ LET op == S.op IN
     CASE op[1] = "act" ->
            LET ex2 == (op[2] :> <<>>) @@ expect IN
            /\ active' = active \cup {op[2]} /\ expect' = ex2
            /\ fails' = fails \o (IF S.outcome = "ok" THEN <<>> ELSE <<F(IF op[3] = "ref" THEN "ActivateByReference" ELSE "ActivateByName", S.outcome)>>)
                              \o (IF S.outcome = "ok" THEN Recv(ex2) ELSE <<>>)
       [] op[1] = "deact" ->
            /\ active' = active \ {op[2]} /\ expect' = expect
            /\ fails' = fails \o (IF S.outcome = "ok" THEN <<>> ELSE <<F("Deactivate", S.outcome)>>) \o Recv(expect)
       [] op[1] = "call" ->
            LET ex2 == [p \in DOMAIN expect |-> IF p \in active THEN Append(expect[p], op[2] + T.off) ELSE expect[p]] IN
            /\ expect' = ex2 /\ UNCHANGED active
            /\ fails' = fails \o (IF S.outcome = "ok" /\ S.same THEN <<>> ELSE <<F("Call", S.outcome)>>) \o Recv(ex2)
       [] op[1] = "resolve" ->
            /\ UNCHANGED <<active, expect>>
            /\ fails' = fails \o (IF S.outcome = "ok" /\ S.same THEN <<>>
                                  ELSE <<F("Resolve", IF S.outcome = "ok" THEN "other-object" ELSE S.outcome)>>)
Spec == Init /\ [][Step]_vars
Progress == TLCSet(tid, <<l - 1, fails>>)
Post == \A i \in 1..Len(Traces) :
          LET r == TLCGet(i) IN
          /\ (Traces[i].ref_err # "" => PrintT(<<"FAIL", Traces[i].id, [line |-> 0, clause |-> "Refstring", why |-> Traces[i].ref_err, nactive |-> 0]>>))
          /\ (Traces[i].stray # <<>> => PrintT(<<"FAIL", Traces[i].id, [line |-> 0, clause |-> "ModuleGlobalsPolluted", why |-> Traces[i].stray[1], nactive |-> 0]>>))
          /\ (r[1] # Len(Traces[i].steps) => PrintT(<<"INCOMPLETE", Traces[i].id, r[1]>>))
          /\ \A k \in DOMAIN r[2] : PrintT(<<"FAIL", Traces[i].id, r[2][k]>>)
=============================================================================
