---------------------------------- MODULE TraceRefs ----------------------------------
(* C14, real histories: the absolute reference of a function resolves to that very       *)
(* function at every point of the history, activation by reference is accepted, and the   *)
(* streams obtained by reference equal the streams obtained by name; probing leaves no      *)
(* stray binding in the function's module.  Probes on OTHER functions of the module (the    *)
(* enclosing function, functions sharing the bare name) run in between, and at every        *)
(* `resolve` step every function of the module must answer to its own reference.            *)
(* The registry mechanism of RegistryOps.tla is run along the history: a wrong answer that   *)
(* the mechanism predicts is tagged mech:<kind> (known deviations), any other wrong answer    *)
(* is tagged other; a right answer where the mechanism predicts a wrong one is model drift.   *)
EXTENDS RegistryOps, Json, IOUtils, TLCExt, SequencesExt
Traces == JsonDeserialize(IOEnv.TRACE_FILE)
VARIABLES tid, l, active, expect, fails, mech, owner
vars == <<tid, l, active, expect, fails, mech, owner>>
T == Traces[tid]
S == T.steps[l]
Init == /\ tid \in 1..Len(Traces) /\ l = 1 /\ active = {} /\ expect = <<>> /\ fails = <<>> /\ owner = <<>>
        /\ mech = (IF Traces[tid].inplace THEN InplaceOp(State0, Traces[tid].key) ELSE State0)     \* tooled in place beforehand
        /\ TLCSet(tid, <<0, <<>>>>)
F(clause, why) == [line |-> l, clause |-> clause, why |-> why, nactive |-> Cardinality(active)]
\* expect: function probe id -> sequence of values owed
Recv(ex) == IF \A p \in DOMAIN ex : p \in DOMAIN S.recv /\ S.recv[p] = ex[p] THEN <<>> ELSE <<F("Stream", "")>>
WhyRef(k, got) == IF got = ResolveKey(mech, k) THEN "mech:" \o ViolKind(mech, k) ELSE "other"
ResolveAll == LET ks == {k \in DOMAIN S.all : S.all[k] # k}
                  ds == {k \in DOMAIN S.all : S.all[k] = k /\ ResolveKey(mech, k) # k}
              IN SetToSeq({F("Resolve", WhyRef(k, S.all[k])) : k \in ks}) \o SetToSeq({F("Drift", k) : k \in ds})
Step ==
  /\ l <= Len(T.steps) /\ l' = l + 1 /\ UNCHANGED tid
  /\ LET op == S.op IN
     CASE op[1] = "act" ->
            LET ex2 == IF S.outcome = "ok" THEN (op[2] :> <<>>) @@ expect ELSE expect IN
            /\ active' = (IF S.outcome = "ok" THEN active \cup {op[2]} ELSE active) /\ expect' = ex2
            /\ mech' = IF S.outcome = "ok" THEN ActOp(mech, T.key, "tree") ELSE mech
            /\ owner' = IF S.outcome = "ok" THEN (op[2] :> T.key) @@ owner ELSE owner
            /\ fails' = fails \o (IF S.outcome = "ok" THEN <<>>
                                  ELSE <<F(IF op[3] = "ref" THEN "ActivateByReference" ELSE "ActivateByName",
                                           IF op[3] = "ref" /\ ResolveKey(mech, T.key) # T.key THEN "mech:" \o ViolKind(mech, T.key) ELSE S.outcome)>>)
                              \o (IF S.outcome = "ok" THEN Recv(ex2) ELSE <<>>)
       [] op[1] = "badact" ->
            \* a probe on the same function naming a variable it does not have: refused with a selector error; the function is
            \* tooled and untooled on the way (one ActOp and one DeactOp of the registry mechanism)
            /\ UNCHANGED <<active, expect, owner>>
            /\ mech' = DeactOp(ActOp(mech, T.key, "tree"), T.key)
            /\ fails' = fails \o (IF S.outcome = "refused:SelectorError" THEN <<>> ELSE <<F("RefusedActivation", S.outcome)>>) \o Recv(expect)
       [] op[1] = "nact" ->
            /\ UNCHANGED <<active, expect>>
            /\ mech' = IF S.outcome = "ok" THEN ActOp(mech, op[3], "tree") ELSE mech
            /\ owner' = IF S.outcome = "ok" THEN (op[2] :> op[3]) @@ owner ELSE owner
            /\ fails' = fails \o (IF S.outcome = "ok" THEN <<>> ELSE <<F("ActivateNeighbour", S.outcome)>>) \o Recv(expect)
       [] op[1] \in {"deact", "ndeact"} ->
            /\ active' = active \ {op[2]} /\ expect' = expect
            /\ mech' = IF op[2] \in DOMAIN owner THEN DeactOp(mech, owner[op[2]]) ELSE mech
            /\ owner' = [p \in DOMAIN owner \ {op[2]} |-> owner[p]]
            \* deactivating a probe whose activation was refused is not part of the history (the driver has no such probe)
            /\ fails' = fails \o (IF S.outcome = "ok" \/ op[2] \notin DOMAIN owner THEN <<>> ELSE <<F("Deactivate", S.outcome)>>) \o Recv(expect)
       [] op[1] = "call" ->
            LET ex2 == [p \in DOMAIN expect |-> IF p \in active THEN Append(expect[p], op[2] + T.off) ELSE expect[p]] IN
            /\ expect' = ex2 /\ UNCHANGED <<active, mech, owner>>
            /\ fails' = fails \o (IF S.outcome = "ok" /\ S.same THEN <<>> ELSE <<F("Call", S.outcome)>>) \o Recv(ex2)
       [] op[1] = "resolve" ->
            /\ UNCHANGED <<active, expect, mech, owner>>
            /\ fails' = fails \o (IF S.outcome = "ok" /\ S.same THEN <<>>
                                  ELSE <<F("Resolve", IF ResolveKey(mech, T.key) # T.key THEN "mech:" \o ViolKind(mech, T.key)
                                                      ELSE IF S.outcome = "ok" THEN "other-object" ELSE S.outcome)>>)
                              \o (IF S.outcome = "ok" THEN ResolveAll ELSE <<>>)
Spec == Init /\ [][Step]_vars
Progress == TLCSet(tid, <<l - 1, fails>>)
Post == \A i \in 1..Len(Traces) :
          LET r == TLCGet(i) IN
          /\ (Traces[i].ref_err # "" => PrintT(<<"FAIL", Traces[i].id, [line |-> 0, clause |-> "Refstring", why |-> Traces[i].ref_err, nactive |-> 0]>>))
          /\ (~Traces[i].deep_ok => PrintT(<<"FAIL", Traces[i].id, [line |-> 0, clause |-> "Refstring", why |-> "two-scopes-deep", nactive |-> 0]>>))
          /\ (Traces[i].stray # <<>> => PrintT(<<"FAIL", Traces[i].id, [line |-> 0, clause |-> "ModuleGlobalsPolluted", why |-> Traces[i].stray[1], nactive |-> 0]>>))
          /\ (r[1] # Len(Traces[i].steps) => PrintT(<<"INCOMPLETE", Traces[i].id, r[1]>>))
          /\ \A k \in DOMAIN r[2] : PrintT(<<"FAIL", Traces[i].id, r[2][k]>>)
=============================================================================
