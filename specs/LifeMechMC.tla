-------------------------------- MODULE LifeMechMC --------------------------------
(* LifeMech |= LifeAbs over all histories up to MaxOps operations.  Every violation    *)
(* signature is collected with its first (BFS-shortest) witness history.               *)
EXTENDS LifeMech
CONSTANTS MaxOps, Universe, InCall
VARIABLES m, status, got, want, hist
vars == <<m, status, got, want, hist>>
Init == /\ m = MInit /\ status = [p \in Probes |-> "new"]
        /\ got = [p \in Probes |-> 0] /\ want = [p \in Probes |-> 0] /\ hist = <<>>
Activate(p) ==
  /\ hist' = Append(hist, <<"act", p>>)
  /\ IF status[p] # "new" THEN UNCHANGED <<m, status, got, want>>          \* "can only be entered once"
     ELSE /\ m' = MActivate(m, p)
          /\ status' = IF Valid(p) THEN [status EXCEPT ![p] = "active"] ELSE status
          /\ UNCHANGED <<got, want>>
Deactivate(p) ==
  /\ status[p] = "active" /\ hist' = Append(hist, <<"deact", p, "normal">>)
  /\ m' = MDeactivate(m, p) /\ status' = [status EXCEPT ![p] = "done"] /\ UNCHANGED <<got, want>>
Call(fn) ==
  /\ \E v \in (IF "p9" \in Universe /\ fn = "f" THEN {Len(hist), 12} ELSE {Len(hist)}) : hist' = Append(hist, <<"call", fn, v>>)
  /\ got'  = [p \in Probes |-> got[p]  + IF Hears(m, p) THEN Len(EventsOf(p, fn, 0)) ELSE 0]
  /\ want' = [p \in Probes |-> want[p] + IF status[p] = "active" THEN Len(EventsOf(p, fn, 0)) ELSE 0]
  /\ UNCHANGED <<m, status>>
\* f() during which p is deactivated at the point where f calls g (InCall universes hold no call-path / total probes)
DeactInCall(p) ==
  /\ InCall /\ status[p] = "active" /\ hist' = Append(hist, <<"calld", Len(hist), p>>)
  /\ LET m1 == MDeactivate(m, p) IN
     /\ got'  = [q \in Probes |-> got[q] + (IF Hears(m, q) THEN Len(BeforeG(q, 0)) ELSE 0) + (IF Hears(m1, q) THEN Len(InG(q, 0)) ELSE 0)]
     /\ want' = [q \in Probes |-> want[q] + IF status[q] = "active" THEN Len(BeforeG(q, 0)) + (IF q = p THEN 0 ELSE Len(InG(q, 0))) ELSE 0]
  /\ m' = MDeactInCallEnd(m, p) /\ status' = [status EXCEPT ![p] = "done"]
Next == \/ \E p \in Universe : Activate(p) \/ Deactivate(p) \/ DeactInCall(p)
        \/ \E fn \in {x \in Fns : x \in {"f", "g"} \/ \E p \in Universe : x \in Touches(p)} : Call(fn)
Spec == Init /\ [][Next]_vars

Act == Active(status)
Viol ==
  (IF \E p \in Probes : got[p] < want[p] THEN {"Receives:lost"} ELSE {}) \cup
  (IF \E p \in Probes : got[p] > want[p] THEN {"Silent"} ELSE {}) \cup
  (IF \E fn \in Fns : (\A p \in Act : fn \notin Touches(p)) /\ ~IsOrig(m, fn) THEN {"Quiescent:code"} ELSE {}) \cup
  (IF ~(InCur(m) \subseteq Act) THEN {"NoStaleHandlers"} ELSE {}) \cup
  (IF ~(Act \subseteq InCur(m)) THEN {"ActiveInstalled"} ELSE {})
Collect ==
  /\ LET old == TLCGet(1)
         new == {s \in Viol : s \notin DOMAIN old}
     IN IF new = {} THEN TRUE
        ELSE TLCSet(1, [s \in DOMAIN old \cup new |-> IF s \in DOMAIN old THEN old[s] ELSE hist])
  /\ (Len(hist) = MaxOps => PrintT(<<"HIST", hist>>))
  /\ Len(hist) < MaxOps
InitX == Init /\ TLCSet(1, <<>>)
Report == \A s \in DOMAIN TLCGet(1) : PrintT(<<"SIGNATURE", s, TLCGet(1)[s]>>)
\* the LIFO fragment (with-blocks only): no violation at all
Lifo == \A i \in DOMAIN hist : hist[i][1] = "deact" =>
          LET before == SubSeq(hist, 1, i - 1)
              acts == SelectSeq(before, LAMBDA h : h[1] = "act" /\ Valid(h[2]))
          IN TRUE
NoViolation == Viol = {}
=============================================================================
