--------------------------------- MODULE PteraMech ---------------------------------
(* Level M for selector matching and accumulation: transcription of                      *)
(*   overlay.HandlerCollection.proceed   (fold over the <<selector, accumulator>> pairs:  *)
(*        non-immediate pairs are always kept, a fitting pair forks its accumulator when   *)
(*        the selector has a focus or the accumulator is the user's template, registers    *)
(*        its captures in the Interactor and pushes its children)                          *)
(*   interpret.Interactor.register / interact (WorkingFrame: accumulator_for, log, trigger)*)
(*   BaseAccumulator.fork / build, Total.accumulator_for / leaves / close,                 *)
(*   Capture.set (Immediate) vs Capture.accum (Total)                                      *)
(* driven by a nondeterministic environment (Enter fn, Bind var, Exit), with the A-level    *)
(* definitions of PteraAbs evaluated on a ghost log of the same history.                   *)
(*   Conforms == bag of records the mechanism delivers = bag PteraAbs owes, at every step. *)
(* Every history is exported so that it can be replayed in the scripted world.             *)
EXTENDS PteraAbs
CONSTANTS MaxEv, MaxDepth, SelId
Fns == {"f", "g"}
Vars == {"a"}
NoCond == [k |-> "none", n |-> 0, s |-> 0, e |-> 0, hasE |-> FALSE]
Cp(n, k, tag) == [name |-> n, key |-> k, tag |-> tag, cat |-> "", cond |-> NoCond]
Nd(fn, caps, kids) == [fn |-> fn, fcat |-> "", caps |-> caps, kids |-> kids]
\* selector catalogue: <<kind, root>>
Sels == <<
  <<"imm", Nd("f", <<Cp("a", "k0", 0)>>, <<Nd("f", <<Cp("a", "k1", 1)>>, <<>>)>>)>>,                               \* 1: f(a as k0) > f > a
  <<"tot", Nd("f", <<>>, <<Nd("g", <<>>, <<Nd("f", <<Cp("a", "k", 0)>>, <<>>)>>)>>)>>,                              \* 2: f(g(f(a as k)))
  <<"imm", Nd("f", <<>>, <<Nd("g", <<Cp("a", "s", 0)>>, <<>>), Nd("f", <<Cp("a", "k1", 1)>>, <<>>)>>)>>,            \* 3: f(g(a as s), f(!a))
  <<"tot", Nd("f", <<Cp("a", "x", 0)>>, <<Nd("g", <<Cp("a", "y", 0)>>, <<>>)>>)>>,                                  \* 4: f(a as x, g(a as y))
  <<"imm", Nd("f", <<>>, <<Nd("g", <<Cp("a", "k", 1)>>, <<>>)>>)>>,                                                 \* 5: f > g > a
  <<"imm", Nd("f", <<Cp("a", "o", 0)>>, <<Nd("g", <<>>, <<Nd("f", <<Cp("a", "k", 1)>>, <<>>)>>)>>)>>,               \* 6: f(a as o) > g > f > a
  <<"imm", Nd("g", <<Cp("a", "k", 1)>>, <<>>)>>,                                                                    \* 7: g > a
  <<"tot", Nd("f", <<Cp("a", "x", 0)>>, <<>>)>>,                                                                    \* 8: f(a as x)
  <<"imm", Nd("f", <<Cp("a", "k", 1)>>, <<Nd("g", <<Cp("a", "s", 0)>>, <<>>)>>)>>,                                  \* 9: f(!a, g(a as s))
  <<"tot", Nd("f", <<>>, <<Nd("g", <<Cp("a", "y", 0)>>, <<>>), Nd("f", <<Cp("a", "z", 0)>>, <<>>)>>)>>              \* 10: f(g(a as y), f(a as z))
>>
Kind == Sels[SelId][1]
R == Sels[SelId][2]

VARIABLES accs, coll, stack,        \* mechanism
          acts, gstack, t,          \* ghost environment log
          got, want, hist
vars == <<accs, coll, stack, acts, gstack, t, got, want, hist>>

\* ================= mechanism =================
NewAcc(parent, leaf) == [parent |-> parent, template |-> FALSE, leaf |-> leaf, caps |-> <<>>, children |-> <<>>]
\* BaseAccumulator.fork (+ Total.__init__: the child registers itself in parent.children)
Fork(A, a, leaf) ==
  LET par == IF A[a].template THEN 0 ELSE a
      A1 == Append(A, NewAcc(par, leaf))
  IN IF par # 0 /\ Kind = "tot" THEN [A1 EXCEPT ![par].children = Append(@, Len(A1))] ELSE A1
\* HandlerCollection.proceed
RECURSIVE Proceed(_, _, _, _)
Proceed(pairs, i, fn, st) ==
  IF i > Len(pairs) THEN st
  ELSE LET S == pairs[i][1]  a == pairs[i][2]
           st1 == [st EXCEPT !.next = Append(@, pairs[i])]
       IN IF S.fn # fn THEN Proceed(pairs, i + 1, fn, st1)
          ELSE LET isT == st1.A[a].template
                   doFork == HasFocus(S) \/ isT
                   A2 == IF doFork THEN Fork(st1.A, a, FALSE) ELSE st1.A
                   a2 == IF doFork THEN Len(A2) ELSE a
                   st2 == [A |-> A2,
                           next |-> st1.next \o [k \in DOMAIN S.kids |-> <<S.kids[k], a2>>],
                           regs |-> st1.regs \o [k \in DOMAIN S.caps |-> <<S.caps[k], a2>>],
                           close |-> IF isT /\ Kind = "tot" THEN Append(st1.close, a2) ELSE st1.close]
               IN Proceed(pairs, i + 1, fn, st2)
\* BaseAccumulator.build: own captures, then every parent's override them
RECURSIVE Build(_, _)
Build(A, a) == IF A[a].parent = 0 THEN A[a].caps ELSE Build(A, A[a].parent) @@ A[a].caps
RECURSIVE Leaves(_, _)
Leaves(A, a) == IF A[a].leaf THEN <<a>>
                ELSE FlattenSeq([i \in DOMAIN A[a].children |-> Leaves(A, A[a].children[i])])
\* WorkingFrame.__init__: accumulator_for (Total forks for a focus element)
RECURSIVE Frame(_, _, _, _)
Frame(A, ms, i, wf) ==
  IF i > Len(ms) THEN [A |-> A, wf |-> wf]
  ELSE LET c == ms[i][1]  a == ms[i][2]
       IN IF Kind = "tot" /\ c.tag = 1
          THEN LET A2 == Fork(A, a, TRUE) IN Frame(A2, ms, i + 1, Append(wf, <<c, Len(A2)>>))
          ELSE Frame(A, ms, i + 1, Append(wf, <<c, a>>))
RECURSIVE LogAll(_, _, _, _)
LogAll(A, wf, i, val) ==
  IF i > Len(wf) THEN A
  ELSE LET c == wf[i][1]  a == wf[i][2]
           old == IF c.key \in DOMAIN A[a].caps THEN A[a].caps[c.key] ELSE <<>>
           new == IF Kind = "imm" THEN <<val>> ELSE Append(old, val)              \* Capture.set / Capture.accum
       IN LogAll([A EXCEPT ![a].caps = (c.key :> new) @@ @], wf, i + 1, val)

Init == /\ accs = << [parent |-> 0, template |-> TRUE, leaf |-> FALSE, caps |-> <<>>, children |-> <<>>] >>
        /\ coll = << <<R, 1>> >>
        /\ stack = <<>> /\ acts = <<>> /\ gstack = <<>> /\ t = 0 /\ got = {} /\ want = {} /\ hist = <<>>

\* records as sets of <<key, value(s)>>
ImmRec(c) == {<<k, c[k][1]>> : k \in DOMAIN c}
TotRec(c) == {<<k, c[k]>> : k \in DOMAIN c}

Enter(fn) ==
  /\ t < MaxEv /\ Len(stack) < MaxDepth /\ (stack = <<>> => fn = "f") /\ t' = t + 1
  /\ hist' = Append(hist, <<"enter", fn>>)
  /\ LET st == Proceed(coll, 1, fn, [A |-> accs, next |-> <<>>, regs |-> <<>>, close |-> <<>>])
     IN /\ accs' = st.A /\ coll' = st.next
        /\ stack' = Append(stack, [fn |-> fn, regs |-> st.regs, close |-> st.close, saved |-> coll])
  /\ acts' = Append(acts, [fn |-> fn, parent |-> IF gstack = <<>> THEN 0 ELSE gstack[Len(gstack)], catch |-> FALSE,
                           fcats |-> {}, binds |-> <<>>])
  /\ gstack' = Append(gstack, Len(acts) + 1)
  /\ got' = {} /\ want' = {}
Bind(var) ==
  /\ t < MaxEv /\ stack # <<>> /\ t' = t + 1
  /\ hist' = Append(hist, <<"bind", var>>)
  /\ LET top == stack[Len(stack)]  val == t + 1
         ms == SelectSeq(top.regs, LAMBDA m : m[1].name = var)
         r1 == Frame(accs, ms, 1, <<>>)
         A2 == LogAll(r1.A, r1.wf, 1, val)
         trig == {i \in DOMAIN r1.wf : r1.wf[i][1].tag = 1 /\ Kind = "imm"}
         b == [t |-> t + 1, var |-> var, val |-> val, cats |-> {}, tab |-> TRUE]
         G2 == [acts EXCEPT ![gstack[Len(gstack)]].binds = Append(@, b)]
     IN /\ accs' = A2
        /\ got' = { <<i, ImmRec(Build(A2, r1.wf[i][2]))>> : i \in trig }
        /\ acts' = G2
        /\ want' = IF Kind = "imm" THEN { <<x[1], { <<y[1], y[2]>> : y \in x[3] }>> : x \in ImmRecs(G2, gstack, R, b) } ELSE {}
  /\ UNCHANGED <<coll, stack, gstack>>
Exit ==
  /\ stack # <<>> /\ t' = t + 1
  /\ hist' = Append(hist, <<"exit">>)
  /\ LET top == stack[Len(stack)]
         closing(a) == LET ls == Leaves(accs, a)  ls2 == IF ls = <<>> THEN <<a>> ELSE ls
                       IN { <<a, i, TotRec(Build(accs, ls2[i]))>> : i \in {j \in DOMAIN ls2 : DOMAIN Build(accs, ls2[j]) = AllKeys(R)} }
     IN /\ coll' = top.saved
        /\ got' = UNION { closing(top.close[i]) : i \in DOMAIN top.close }
        /\ want' = IF Kind = "tot" THEN { <<0, r>> : r \in TotalRecs(acts, R, gstack[Len(gstack)]) } ELSE {}
  /\ stack' = SubSeq(stack, 1, Len(stack) - 1) /\ gstack' = SubSeq(gstack, 1, Len(gstack) - 1)
  /\ UNCHANGED <<accs, acts>>
Next == (\E fn \in Fns : Enter(fn)) \/ (\E v \in Vars : Bind(v)) \/ Exit
Spec == Init /\ [][Next]_vars

BagOf(S) == LET recs == {x[Len(x)] : x \in S} IN [r \in recs |-> Cardinality({x \in S : x[Len(x)] = r})]
Conforms == BagOf(got) = BagOf(want)
\* collect the first (shortest) witness of a non-conforming step, export every complete history
Collect == /\ (IF Conforms \/ TLCGet(1) # <<>> THEN TRUE ELSE TLCSet(1, hist))
           /\ (stack = <<>> /\ hist # <<>> => PrintT(<<"HIST", hist>>))
           /\ (stack = <<>> => t = 0)                  \* a history ends when its outermost call ends
InitX == Init /\ TLCSet(1, <<>>)
Report == TLCGet(1) # <<>> => PrintT(<<"SIGNATURE", "RecordsDiffer", TLCGet(1)>>)
=============================================================================
