--------------------------------- MODULE TraceAbsent ---------------------------------
(* C16: declared-only variables are supplied from outside or fail loudly; the absent     *)
(* marker never escapes; undefined globals behave as in Python.                          *)
(* Trace format of TraceXform (program, path, ref = twin run, instrumented runs).  A     *)
(* program of family F16 brackets the declaration `d: T` between the observable calls    *)
(* F(marker) and F(marker+1):                                                            *)
(*   Supplied   : an active tweak / overriding probe on d => the run passes the          *)
(*                declaration and every later read of d sees the supplied value          *)
(*   FailsThere : d instrumented, nobody supplies => the very next thing after F(marker) *)
(*                is the ptera name error naming d, with provenance and annotation       *)
(*   NoAbsent   : the marker appears in no logged value, event, stream or result         *)
(*   Undefined globals: identical to the untouched function (NameError at the use,       *)
(*                nothing when unused)                                                   *)
EXTENDS Integers, Sequences, FiniteSets, TLC, Json, IOUtils, TLCExt, SequencesExt
Traces == JsonDeserialize(IOEnv.TRACE_FILE)
VARIABLES tid, ri, fails
vars == <<tid, ri, fails>>
T == Traces[tid]
Hide(log) == SelectSeq(log, LAMBDA e : e[1] # "bind")
HasAbsent(seq) == \E i \in DOMAIN seq : \E j \in DOMAIN seq[i] : seq[i][j] = "ABSENT"
StreamAbsent(r) == \E s \in DOMAIN r.streams : \E i \in DOMAIN r.streams[s] : \E j \in DOMAIN r.streams[s][i] :
                      r.streams[s][i][j][2] \in {"ABSENT", "[ABSENT]"}
D == T.decl
IsMarker(e, m) == e[1] = "call" /\ e[2] = m
MarkerIdx(log, m) == LET I == {i \in DOMAIN log : IsMarker(log[i], m)} IN IF I = {} THEN 0 ELSE CHOOSE i \in I : \A j \in I : i <= j
ByTag(r) == D.tag # "" /\ \E i \in DOMAIN r.sels : r.sels[i].focus \in {"$v:@" \o D.tag, "*:@" \o D.tag}
Instr(r) == r.mode \in {"tooled", "inplace", "tweak", "tweak2", "tweak_cond", "ovprobe", "total", "ovseq1", "ovseq2"}
            \/ (r.mode \in {"catprobe", "catplain"} /\ ByTag(r))
            \/ (r.mode = "probe" /\ \E i \in DOMAIN r.sels : r.sels[i].focus \in {D.var, "$x"}
                                                            \/ \E j \in DOMAIN r.sels[i].ctx : r.sels[i].ctx[j] = D.var)
SupplyIdx(r) == {i \in DOMAIN r.sels : r.sels[i].focus = D.var \/ (D.tag # "" /\ r.sels[i].focus = "$v:@" \o D.tag)}
\* ovseq1 / ovseq2: two calls under one overriding probe whose pipeline lets the override through for the first call only
Supplied(r) == r.mode \in {"tweak", "tweak2", "ovprobe", "catprobe", "ovseq1"} /\ SupplyIdx(r) # {}
SupplyVal(r) == r.supply + (CHOOSE i \in SupplyIdx(r) : TRUE) - 1
F(run, clause, a, b) == [run |-> run, clause |-> clause, a |-> a, b |-> b]
NextMarker == IF D.marker = "901" THEN "902" ELSE "903"
\* integer -> decimal string for small naturals (supplied values are 555..560)
Digits == <<"0", "1", "2", "3", "4", "5", "6", "7", "8", "9">>
Str3(n) == Digits[(n \div 100) + 1] \o Digits[((n \div 10) % 10) + 1] \o Digits[(n % 10) + 1]

CheckRun(r, k) ==
  LET leakvars == { r.log[i][2] : i \in {j \in DOMAIN r.log : r.log[j][1] = "seen" /\ r.log[j][3] = "ABSENT"} }
                  \cup UNION { UNION { { r.streams[s][i][j][1] : j \in {x \in DOMAIN r.streams[s][i] : r.streams[s][i][x][2] \in {"ABSENT", "[ABSENT]"}} }
                                       : i \in DOMAIN r.streams[s] } : s \in DOMAIN r.streams }
      instrAll == r.mode \in {"tooled", "inplace", "tweak", "tweak2", "tweak_cond"}
                  \/ (r.mode = "probe" /\ \E i \in DOMAIN r.sels : r.sels[i].focus = "$x")
      instrV(v) == instrAll \/ (\E i \in DOMAIN r.sels : r.sels[i].focus = v \/ \E j \in DOMAIN r.sels[i].ctx : r.sels[i].ctx[j] = v)
      \* an overriding probe's pipeline is handed the tentative value of the binding: for a declared-only variable there is none
      inOverrideEventOnly == StreamAbsent(r) /\ ~HasAbsent(r.log) /\ ~(\E j \in DOMAIN r.result : r.result[j] = "ABSENT")
                             /\ r.mode \in {"ovprobe", "catprobe", "ovseq1", "ovseq2"}
      absent == IF inOverrideEventOnly THEN << F(k, "AbsentInOverrideEvent", r.mode, "") >>
                ELSE IF HasAbsent(r.log) \/ (\E j \in DOMAIN r.result : r.result[j] = "ABSENT") \/ StreamAbsent(r)
                THEN << F(k, "AbsentEscapes", r.mode,
                          IF instrAll \/ (leakvars # {} /\ \A v \in leakvars : instrV(v)) THEN "instrumented" ELSE "not-instrumented") >> ELSE <<>>
  IN IF r.act_err # "" THEN << F(k, "Activation", r.act_err, "") >>
     ELSE IF D.var = "" \/ MarkerIdx(Hide(T.ref.log), D.marker) = 0
     THEN \* no declaration on this path: plain transparency
          absent \o (IF r.log = Hide(T.ref.log) /\ r.result = T.ref.result THEN <<>>
                     ELSE << F(k, IF D.var # "" THEN "Transparency"
                                  ELSE IF r.result[1] = "raise" /\ Len(r.result) >= 3 /\ r.result[3] = "NameError:PteraNameError" THEN "UndefinedGlobal:at-entry"
                                  ELSE IF ~instrAll /\ ~instrV("UNDEF_G") THEN "UndefinedGlobal:uninstrumented"
                                  ELSE "UndefinedGlobal:other",
                               T.ref.result[1] \o ":" \o T.ref.result[Len(T.ref.result)],
                               r.result[1] \o ":" \o r.result[Len(r.result)]) >>)
     ELSE LET mi == MarkerIdx(r.log, D.marker)
              nxt == IF mi > 0 /\ mi < Len(r.log) THEN r.log[mi + 1] ELSE <<"end", "">>
              passed == nxt[1] = "call" /\ nxt[2] = NextMarker
          IN absent \o
             (IF mi = 0 THEN << F(k, "DeclarationNotReached", "", "") >>
              ELSE IF Supplied(r)
              THEN (IF passed THEN <<>> ELSE << F(k, "Supplied", "stopped-at-declaration", r.result[Len(r.result)]) >>) \o
                   (IF \A i \in DOMAIN r.log : (r.log[i][1] = "seen" /\ r.log[i][2] = D.var) => r.log[i][3] = Str3(SupplyVal(r))
                    THEN <<>> ELSE << F(k, "Supplied", "wrong-value", "") >>)
              ELSE IF Instr(r)
              THEN (IF ~passed THEN <<>> ELSE << F(k, "FailsThere", "continued-past-declaration", r.mode) >>) \o
                   (IF passed \/ D.catches \/ (r.result[1] = "raise" /\ Len(r.result) >= 6 /\ r.result[3] = "NameError:PteraNameError"
                                               /\ r.result[4] = D.var /\ r.result[5] = "body"
                                               \* reached through one tag only, the declarations carrying other tags are not looked at
                                               /\ (r.result[6] = D.ann \/ (ByTag(r) /\ r.result[6] = "ann:ptera.tag." \o D.tag)))
                    THEN <<>> ELSE << F(k, "FailsThere", "wrong-error", r.result[Len(r.result)]) >>)
              \* nobody looks at the declared variable: the declaration is a plain declaration, the run is the untouched function's
              ELSE IF r.mode \notin {"probe", "catplain"} \/ ("var2" \in DOMAIN D /\ instrV(D.var2)) THEN <<>>
              ELSE IF r.log = Hide(T.ref.log) /\ r.result = T.ref.result THEN <<>>
              ELSE << F(k, "Transparency", T.ref.result[1] \o ":" \o T.ref.result[Len(T.ref.result)], r.result[1] \o ":" \o r.result[Len(r.result)]) >>)
Init == tid \in 1..Len(Traces) /\ ri = 0 /\ fails = <<>> /\ TLCSet(tid, <<0, <<>>>>)
Step == /\ ri < Len(T.runs) /\ ri' = ri + 1 /\ UNCHANGED tid
        /\ fails' = fails \o CheckRun(T.runs[ri + 1], ri + 1)
Spec == Init /\ [][Step]_vars
Progress == TLCSet(tid, <<ri, fails>>)
Post == \A i \in 1..Len(Traces) :
          LET r == TLCGet(i) IN
          /\ (r[1] # Len(Traces[i].runs) => PrintT(<<"INCOMPLETE", Traces[i].id, r[1]>>))
          /\ \A k \in DOMAIN r[2] : PrintT(<<"FAIL", Traces[i].id, r[2][k]>>)
=============================================================================
