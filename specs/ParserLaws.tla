--------------------------------- MODULE ParserLaws ---------------------------------
(* C15 at the level of the parser transcription: for every operand substitution from   *)
(* a bounded operand space, the documented alternative spellings have equal parses     *)
(* (the real parser interns structurally equal selectors, so equal parses are the      *)
(* same object; identity itself is checked on the real code by TraceParser).           *)
EXTENDS Parser
W(v) == [v |-> v, ty |-> "WORD"]
O(v) == [v |-> v, ty |-> "OPERATOR"]
S(v) == [v |-> v, ty |-> "STRING"]
FnOps == { <<W("f")>>, <<W("g")>>, <<W("mod.fn")>> }
CapOps == { <<W("x")>>, <<W("y")>>, <<W("x"), O("as"), W("z")>>, <<W("x"), O(":"), W("@T")>>,
            <<W("x"), O("="), W("1")>>, <<W("x"), O("="), S("'s'")>>,
            <<W("x"), O("="), W("g"), O("("), W("1"), O(","), W("k"), O("="), W("2"), O(")")>>,
            <<W("x"), O("~"), W("p"), O("("), W("3"), O(")")>>,
            <<O("$"), W("x")>>, <<O("$"), W("x"), O(":"), W("@T")>>, <<W("#value")>>, <<W("#enter")>>,
            <<W("x"), O("as"), W("z"), O(":"), W("@T")>>, <<W("*"), O(":"), W("@T")>> }
CtxOps == { <<W("a")>>, <<W("b"), O("as"), W("c")>>, <<W("a"), O(":"), W("@T")>>, <<W("a"), O("="), W("1")>>,
            <<O("$"), W("q")>>, <<W("g"), O("("), W("y"), O(")")>>, <<W("g"), O("("), W("y"), O(","), W("z"), O(")")>>,
            <<W("a"), O(","), W("b")>>, <<W("h"), O("("), W("g"), O("("), W("y"), O(")"), O(")")>> }
Laws == {"gt-vs-bang", "gt-with-context", "chain-assoc", "chain-nested", "chain-ctx", "call-as", "call-ctx-as",
         "dollar", "dollar-in", "call-eq", "in-gt-vs-bang", "in-chain-nested", "in-call-as", "in-chain-call-as", "in-call-eq",
         "root-chain-call-as", "dollar-cat", "dollar-val", "dollar-match", "dollar-cat-val",
         "call-as-eq", "call-as-match", "in-call-as-eq"}
GT == <<O(">")>>  LPAR == <<O("(")>>  RPAR == <<O(")")>>  BANG == <<O("!")>>  COMMA == <<O(",")>>
Lhs(law, fn, cap, ctx) ==
  CASE law = "gt-vs-bang"      -> fn \o GT \o cap
    [] law = "gt-with-context" -> fn \o LPAR \o ctx \o RPAR \o GT \o cap
    [] law = "chain-assoc"     -> fn \o GT \o <<W("g")>> \o GT \o cap
    [] law = "chain-nested"    -> fn \o GT \o <<W("g")>> \o GT \o cap
    [] law = "chain-ctx"       -> fn \o LPAR \o ctx \o RPAR \o GT \o <<W("g")>> \o GT \o cap
    [] law = "call-as"         -> fn \o LPAR \o RPAR \o <<O("as"), W("r")>>
    [] law = "call-ctx-as"     -> fn \o LPAR \o ctx \o RPAR \o <<O("as"), W("r")>>
    [] law = "dollar"          -> fn \o GT \o <<O("$"), W("x")>>
    [] law = "dollar-in"       -> fn \o LPAR \o <<O("$"), W("x")>> \o RPAR \o GT \o <<W("y")>>
    [] law = "call-eq"         -> fn \o LPAR \o ctx \o RPAR \o <<O("="), W("1")>>
    [] law = "in-gt-vs-bang"   -> <<W("h")>> \o LPAR \o ctx \o COMMA \o fn \o GT \o cap \o RPAR
    [] law = "in-chain-nested" -> <<W("h")>> \o LPAR \o ctx \o COMMA \o fn \o GT \o <<W("g")>> \o GT \o cap \o RPAR
    [] law = "in-call-as"      -> <<W("h")>> \o LPAR \o ctx \o COMMA \o fn \o LPAR \o RPAR \o <<O("as"), W("r")>> \o RPAR
    [] law = "in-chain-call-as" -> <<W("h")>> \o LPAR \o ctx \o COMMA \o <<W("g")>> \o GT \o fn \o LPAR \o RPAR \o <<O("as"), W("r")>> \o RPAR
    [] law = "in-call-eq"      -> <<W("h")>> \o LPAR \o <<W("q")>> \o COMMA \o fn \o LPAR \o ctx \o RPAR \o <<O("="), W("1")>> \o RPAR
    [] law = "root-chain-call-as" -> <<W("g")>> \o GT \o fn \o LPAR \o ctx \o RPAR \o <<O("as"), W("r")>>
    [] law = "dollar-cat"      -> fn \o LPAR \o ctx \o RPAR \o GT \o <<O("$"), W("x")>> \o <<O(":"), W("@T")>>
    [] law = "dollar-val"      -> fn \o LPAR \o <<O("$"), W("x")>> \o <<O("="), W("1")>> \o RPAR \o GT \o cap
    [] law = "dollar-match"    -> fn \o LPAR \o <<O("$"), W("x")>> \o <<O("~"), W("p"), O("("), W("3"), O(")")>> \o RPAR \o GT \o cap
    [] law = "dollar-cat-val"  -> fn \o LPAR \o ctx \o COMMA \o <<O("$"), W("x")>> \o <<O(":"), W("@T")>> \o <<O("="), W("1")>> \o RPAR \o GT \o <<W("y")>>
    [] law = "call-as-eq"      -> fn \o LPAR \o ctx \o RPAR \o <<O("as"), W("r"), O("="), W("1")>>
    [] law = "call-as-match"   -> fn \o LPAR \o ctx \o RPAR \o <<O("as"), W("r"), O("~"), W("p"), O("("), W("3"), O(")")>>
    [] law = "in-call-as-eq"   -> <<W("h")>> \o LPAR \o <<W("q")>> \o COMMA \o fn \o LPAR \o ctx \o RPAR \o <<O("as"), W("r"), O("="), W("1")>> \o RPAR
Rhs(law, fn, cap, ctx) ==
  CASE law = "gt-vs-bang"      -> fn \o LPAR \o BANG \o cap \o RPAR
    [] law = "gt-with-context" -> fn \o LPAR \o ctx \o COMMA \o BANG \o cap \o RPAR
    [] law = "chain-assoc"     -> fn \o GT \o LPAR \o <<W("g")>> \o GT \o cap \o RPAR
    [] law = "chain-nested"    -> fn \o LPAR \o <<W("g")>> \o LPAR \o BANG \o cap \o RPAR \o RPAR
    [] law = "chain-ctx"       -> fn \o LPAR \o ctx \o COMMA \o <<W("g")>> \o LPAR \o BANG \o cap \o RPAR \o RPAR
    [] law = "call-as"         -> fn \o LPAR \o BANG \o <<W("#value"), O("as"), W("r")>> \o RPAR
    [] law = "call-ctx-as"     -> fn \o LPAR \o ctx \o COMMA \o BANG \o <<W("#value"), O("as"), W("r")>> \o RPAR
    [] law = "dollar"          -> fn \o GT \o <<W("*"), O("as"), W("x")>>
    [] law = "dollar-in"       -> fn \o LPAR \o <<W("*"), O("as"), W("x")>> \o RPAR \o GT \o <<W("y")>>
    [] law = "call-eq"         -> fn \o LPAR \o ctx \o COMMA \o <<W("#value"), O("="), W("1")>> \o RPAR
    [] law = "in-gt-vs-bang"   -> <<W("h")>> \o LPAR \o ctx \o COMMA \o fn \o LPAR \o BANG \o cap \o RPAR \o RPAR
    [] law = "in-chain-nested" -> <<W("h")>> \o LPAR \o ctx \o COMMA \o fn \o LPAR \o <<W("g")>> \o LPAR \o BANG \o cap \o RPAR \o RPAR \o RPAR
    [] law = "in-call-as"      -> <<W("h")>> \o LPAR \o ctx \o COMMA \o fn \o LPAR \o <<W("#value"), O("as"), W("r")>> \o RPAR \o RPAR
    [] law = "in-chain-call-as" -> <<W("h")>> \o LPAR \o ctx \o COMMA \o <<W("g")>> \o LPAR \o fn \o LPAR \o RPAR \o <<O("as"), W("r")>> \o RPAR \o RPAR
    [] law = "in-call-eq"      -> <<W("h")>> \o LPAR \o <<W("q")>> \o COMMA \o fn \o LPAR \o ctx \o COMMA \o <<W("#value"), O("="), W("1")>> \o RPAR \o RPAR
    [] law = "root-chain-call-as" -> <<W("g")>> \o LPAR \o fn \o LPAR \o ctx \o COMMA \o BANG \o <<W("#value"), O("as"), W("r")>> \o RPAR \o RPAR
    [] law = "dollar-cat"      -> fn \o LPAR \o ctx \o RPAR \o GT \o <<W("*"), O("as"), W("x")>> \o <<O(":"), W("@T")>>
    [] law = "dollar-val"      -> fn \o LPAR \o <<W("*"), O("as"), W("x")>> \o <<O("="), W("1")>> \o RPAR \o GT \o cap
    [] law = "dollar-match"    -> fn \o LPAR \o <<W("*"), O("as"), W("x")>> \o <<O("~"), W("p"), O("("), W("3"), O(")")>> \o RPAR \o GT \o cap
    [] law = "dollar-cat-val"  -> fn \o LPAR \o ctx \o COMMA \o <<W("*"), O("as"), W("x")>> \o <<O(":"), W("@T")>> \o <<O("="), W("1")>> \o RPAR \o GT \o <<W("y")>>
    [] law = "call-as-eq"      -> fn \o LPAR \o ctx \o COMMA \o BANG \o <<W("#value"), O("as"), W("r")>> \o COMMA \o <<W("#value"), O("="), W("1")>> \o RPAR
    [] law = "call-as-match"   -> fn \o LPAR \o ctx \o COMMA \o BANG \o <<W("#value"), O("as"), W("r")>> \o COMMA \o <<W("#value"), O("~"), W("p"), O("("), W("3"), O(")")>> \o RPAR
    [] law = "in-call-as-eq"   -> <<W("h")>> \o LPAR \o <<W("q")>> \o COMMA \o fn \o LPAR \o ctx \o COMMA \o <<W("#value"), O("as"), W("r")>> \o COMMA \o <<W("#value"), O("="), W("1")>> \o RPAR \o RPAR
VARIABLES law, fn, cap, ctx
Init == law \in Laws /\ fn \in FnOps /\ cap \in CapOps /\ ctx \in CtxOps
Next == UNCHANGED <<law, fn, cap, ctx>>
Spec == Init /\ [][Next]_<<law, fn, cap, ctx>>
L == Parse(Lhs(law, fn, cap, ctx))
R == Parse(Rhs(law, fn, cap, ctx))
LawHolds == ~IsErr(L) /\ L = R
\* focus of a selector = the variable marked ! or standing after the last > : exactly one focused capture
RECURSIVE Focused(_)
Focused(c) == IF c.k = "E" THEN (IF c.t1 THEN 1 ELSE 0)
              ELSE LET fc(i) == Focused(c.caps[i])  fk(i) == Focused(c.kids[i])
                       RECURSIVE SumC(_)  RECURSIVE SumK(_)
                       SumC(i) == IF i = 0 THEN 0 ELSE fc(i) + SumC(i - 1)
                       SumK(i) == IF i = 0 THEN 0 ELSE fk(i) + SumK(i - 1)
                   IN SumC(Len(c.caps)) + SumK(Len(c.kids))
RootLaws == {"gt-vs-bang", "gt-with-context", "chain-assoc", "chain-nested", "chain-ctx", "call-as", "call-ctx-as", "dollar", "dollar-in", "root-chain-call-as", "dollar-cat", "dollar-val", "dollar-match", "dollar-cat-val", "call-as-eq", "call-as-match"}
OneFocus == (~IsErr(L) /\ law \in RootLaws) => Focused(SelectOf(L)) = 1
\* inside another call's parentheses 'f() as r' and 'f(b)=c' carry no focus; '>' and '!' carry exactly one
InnerFocus == (~IsErr(L) /\ law \in {"in-call-as", "in-chain-call-as", "in-call-eq", "in-call-as-eq"}) => Focused(SelectOf(L)) = 0
=============================================================================
