------------------------------- MODULE TraceXformMech -------------------------------
(* Conformance of Xform.tla with the real code, on the shape programs                     *)
(*      def fx(x): o = O(9); <assignment statement>; return 0                              *)
(* whose right-hand side is a sequence that logs how it is taken apart (rt2.LS).           *)
(*   SemDrift : the twin's log is not what Py(st) says Python does (model of Python wrong) *)
(*   Log / Result / Activation : an instrumented run differs observably from the plain run *)
(*        (A level, C01) - with mech = TRUE iff the instrumented log is exactly what the    *)
(*        rewrite model X(st, I) predicts: only then is the difference one of the known     *)
(*        classes (Signature); mech = FALSE is an unexplained difference                    *)
(*   Stream   : a single-variable probe's stream is not Python's binding history of that    *)
(*        variable (C02) - same mech rule                                                   *)
(*   Drift    : the run is transparent but the model predicts something else                *)
EXTENDS Xform, Json, IOUtils, TLCExt
Traces == JsonDeserialize(IOEnv.TRACE_FILE)
VARIABLES tid, ri, fails
vars == <<tid, ri, fails>>
T == Traces[tid]
Stmt == T.prog.body[2]
RECURSIVE PathStr(_)
PathStr(src) == IF Len(src) = 1 THEN "1" ELSE PathStr(SubSeq(src, 1, Len(src) - 1)) \o "." \o src[Len(src)]
ValStr(src) == IF src[Len(src)] = "rest" THEN "rest" ELSE "v:" \o PathStr(src)
EnvKinds == {"eval", "unpack", "getitem", "setattr", "setitem"}
EnvOf(acts) == LET s == SelectSeq(acts, LAMBDA a : a[1] \in EnvKinds)
               IN [i \in DOMAIN s |->
                     CASE s[i][1] = "eval" -> <<"eval", ToString(s[i][2])>>
                       [] s[i][1] = "unpack" -> <<"siter", PathStr(s[i][2])>>
                       [] s[i][1] = "getitem" -> <<"sgetitem", PathStr(s[i][2]), ToString(s[i][3])>>
                       [] s[i][1] = "setattr" -> <<"setattr", s[i][3], ValStr(s[i][4])>>
                       [] s[i][1] = "setitem" -> <<"setitem", ValStr(s[i][3])>>]
RealKinds == {"eval", "siter", "sgetitem", "setattr", "setitem"}
RealEnv(log) == LET s == SelectSeq(log, LAMBDA e : e[1] \in RealKinds)
                IN [i \in DOMAIN s |->
                      CASE s[i][1] = "eval" -> <<"eval", s[i][2]>>
                        [] s[i][1] = "siter" -> <<"siter", s[i][2]>>
                        [] s[i][1] = "sgetitem" -> <<"sgetitem", s[i][2], s[i][3]>>
                        [] s[i][1] = "setattr" -> <<"setattr", s[i][3], s[i][4]>>
                        [] s[i][1] = "setitem" -> <<"setitem", s[i][4]>>]
Locals == {"a", "b", "c"}
\* the twin reports the bindings of a statement after the statement (name by name, with the value the name then has):
\* what can be compared is the order of first... the final value of every name and the number of bindings
LastOf(seq, n) == LET J == {i \in DOMAIN seq : seq[i][1] = n} IN IF J = {} THEN "-" ELSE seq[CHOOSE i \in J : \A j \in J : j <= i][2]
BindsSeq(acts) == LET s == SelectSeq(acts, LAMBDA a : a[1] = "bind" /\ a[2] \in Locals) IN [i \in DOMAIN s |-> <<s[i][2], ValStr(s[i][3])>>]
RealBindsSeq(log) == LET s == SelectSeq(log, LAMBDA e : e[1] = "bind" /\ e[2] \in Locals) IN [i \in DOMAIN s |-> <<s[i][2], s[i][3]>>]
BindsOf(acts) == <<Len(BindsSeq(acts)), [n \in Locals |-> LastOf(BindsSeq(acts), n)]>>
RealBinds(log) == <<Len(RealBindsSeq(log)), [n \in Locals |-> LastOf(RealBindsSeq(log), n)]>>

ISet(r) == IF r.mode \in {"tooled", "inplace"} \/ (\E i \in DOMAIN r.sels : r.sels[i].focus = "$x") THEN {"*"}
           ELSE UNION {{r.sels[i].focus} \cup {r.sels[i].ctx[j] : j \in DOMAIN r.sels[i].ctx} : i \in DOMAIN r.sels}
Classes(st, I) == LET S == Signature(st, I) IN
  (IF "StarredTarget" \in S THEN "Starred" ELSE "") \o (IF "UnpackByIndex" \in S THEN "Unpack" ELSE "")
  \o (IF "SubscriptIndexTwice" \in S THEN "Subscript" ELSE "") \o (IF "OtherOrder" \in S \/ "StreamDiffers" \in S THEN "Other" ELSE "")
F(run, clause, mech, cls, a) == [run |-> run, clause |-> clause, mech |-> mech, cls |-> cls, a |-> a]
CheckRun(r, k) ==
  LET I == ISet(r)
      pred == X(Stmt, I)
      cls == Classes(Stmt, I)
      real == RealEnv(r.log)
      want == RealEnv(T.plain.log)
  IN IF HasSyntaxError(pred)
     THEN (IF r.act_err = "" THEN << F(k, "Drift", FALSE, cls, "compiles") >> ELSE << F(k, "Activation", r.act_err = "SyntaxError", cls, r.act_err) >>)
     ELSE IF r.act_err # "" THEN << F(k, "Activation", FALSE, cls, r.act_err) >>
     ELSE IF r.result[1] = "diverged"
     THEN \* the rewritten code asked for a decision the plain path does not have (a site evaluated once more):
          \* predicted iff the run follows the prediction up to an evaluation that Python's own order does not contain there
          LET p == EnvOf(Erase(pred))
          IN << F(k, "Log", IsPrefix(real, p) /\ Len(real) < Len(p) /\ p[Len(real) + 1][1] = "eval", cls, "diverged") >>
     ELSE (IF real = want /\ r.result = T.plain.result
           THEN (IF real = EnvOf(Erase(pred)) THEN <<>> ELSE << F(k, "Drift", FALSE, cls, "transparent") >>)
           ELSE << F(k, IF real = want THEN "Result" ELSE "Log", real = EnvOf(Erase(pred)), cls, "") >>) \o
          \* single-variable probes: the stream of the focus
          (IF r.mode = "probe" /\ Len(r.sels) = 1 /\ r.sels[1].focus \in Locals /\ r.sels[1].ctx = <<>>
           THEN LET n == r.sels[1].focus
                    got == [i \in DOMAIN r.streams[1] |-> <<r.streams[1][i][1][1], r.streams[1][i][1][2]>>]
                    wantS == LET b == PyBinds(Stmt, {n}) IN [i \in DOMAIN b |-> <<b[i][1], ValStr(b[i][2])>>]
                    predS == LET b == XStream(Stmt, {n}) IN [i \in DOMAIN b |-> <<b[i][1], ValStr(b[i][2])>>]
                IN IF got = wantS THEN <<>> ELSE << F(k, "Stream", got = predS, cls, n) >>
           ELSE <<>>)
Init == /\ tid \in 1..Len(Traces) /\ ri = 0
        /\ fails = (IF RealEnv(T.ref.log) = EnvOf(Py(Stmt)) /\ RealBinds(T.ref.log) = BindsOf(Py(Stmt)) THEN <<>>
                    ELSE << F(0, "SemDrift", FALSE, "", "") >>)
        /\ TLCSet(tid, <<0, <<>>>>)
Step == /\ ri < Len(T.runs) /\ ri' = ri + 1 /\ UNCHANGED tid
        /\ fails' = fails \o CheckRun(T.runs[ri + 1], ri + 1)
Spec == Init /\ [][Step]_vars
Progress == TLCSet(tid, <<ri, fails>>)
Post == \A i \in 1..Len(Traces) :
          LET r == TLCGet(i) IN
          /\ (r[1] # Len(Traces[i].runs) => PrintT(<<"INCOMPLETE", Traces[i].id, r[1]>>))
          /\ \A k \in DOMAIN r[2] : PrintT(<<"FAIL", Traces[i].id, r[2][k]>>)
=============================================================================
