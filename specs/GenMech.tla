---------------------------------- MODULE GenMech ----------------------------------
(* C09.  A level: what the driver of instrumented generators may rely on; M level:      *)
(* the token machine of overlay.proceed across yields.                                  *)
(* World (harness/worlds/lifeworld.py): gen(2) calls g(k) and yields, twice; overlay o1 *)
(* carries 'gen > g > a' (needs the generator as an ancestor), o2 carries 'g > a'.      *)
(* Collection items: R1 / R2 = root pair of o1 / o2, K1 = child pair <<g(!a), fork>>    *)
(* that HandlerCollection.proceed adds on entering gen under R1.                        *)
EXTENDS Integers, Sequences, FiniteSets, TLC
Gens == {"g1", "g2"}
Ovls == {"o1", "o2"}
Root(o) == IF o = "o1" THEN "R1" ELSE "R2"
Count(c, x) == Len(SelectSeq(c, LAMBDA y : y = x))

\* ------------- M: mechanism state m = [cur, otok, gtok, gst, ost]
MInit == [cur |-> <<>>, otok |-> [o \in Ovls |-> <<>>], gtok |-> [g \in Gens |-> <<>>],
          gst |-> [g \in Gens |-> "none"], ost |-> [o \in Ovls |-> "new"]]
\* HandlerCollection.proceed(gen): every pair is kept; each R1 is followed by its child K1
RECURSIVE ProceedGen(_)
ProceedGen(c) == IF c = <<>> THEN <<>>
                 ELSE (IF Head(c) = "R1" THEN <<"R1", "K1">> ELSE <<Head(c)>>) \o ProceedGen(Tail(c))
MEnter(m, o) == [m EXCEPT !.otok[o] = m.cur, !.cur = Append(m.cur, Root(o)), !.ost[o] = "open"]
MExit(m, o)  == [m EXCEPT !.cur = m.otok[o], !.ost[o] = "closed"]              \* reset(token)
MNew(m, g)   == [m EXCEPT !.gst[g] = "new"]
\* events a call of g delivers, matched against the collection current at that moment
FiresO1(c) == Count(c, "K1")
FiresO2(c) == Count(c, "R2")
\* next(): first call enters proceed (token := cur; cur := ProceedGen(cur)) and runs to the first yield *inside*
\* the with-proceed block; later calls resume there; the third call ends the generator: reset(token)
MNext(m, g) ==
  CASE m.gst[g] = "new"   -> LET c2 == ProceedGen(m.cur) IN
                             [m |-> [m EXCEPT !.gtok[g] = m.cur, !.cur = c2, !.gst[g] = "s1"], f1 |-> FiresO1(c2), f2 |-> FiresO2(c2), k |-> 0]
    [] m.gst[g] = "s1"    -> [m |-> [m EXCEPT !.gst[g] = "s2"], f1 |-> FiresO1(m.cur), f2 |-> FiresO2(m.cur), k |-> 1]
    [] m.gst[g] = "s2"    -> [m |-> [m EXCEPT !.gst[g] = "done", !.cur = m.gtok[g]], f1 |-> 0, f2 |-> 0, k |-> 2]
    [] OTHER              -> [m |-> m, f1 |-> 0, f2 |-> 0, k |-> 3]
\* close / drop of a started generator: GeneratorExit at the yield, proceed.__exit__ restores the token
MEnd(m, g) == IF m.gst[g] \in {"s1", "s2"} THEN [m EXCEPT !.gst[g] = "done", !.cur = m.gtok[g]]
              ELSE [m EXCEPT !.gst[g] = IF m.gst[g] = "none" THEN "none" ELSE "done"]

\* ------------- A: abstract state a = [open (sequence of open overlays), gst]
AInit == [open |-> <<>>, gst |-> [g \in Gens |-> "none"]]
IsOpen(a, o) == \E i \in DOMAIN a.open : a.open[i] = o
\* the driver sees exactly the root pairs of the open overlays, independent of generator states
ACur(a) == [i \in DOMAIN a.open |-> Root(a.open[i])]
\* a resumption that runs g inside the generator: o1 and o2 fire once each if open
ANextFires(a, g, o) == IF a.gst[g] \in {"new", "s1"} /\ IsOpen(a, o) THEN 1 ELSE 0
\* the driver's own call of g: never under the generator
ACallFires(a, o) == IF o = "o2" /\ IsOpen(a, o) THEN 1 ELSE 0
ANextState(s) == CASE s = "new" -> "s1" [] s = "s1" -> "s2" [] s = "s2" -> "done" [] OTHER -> s
=============================================================================
