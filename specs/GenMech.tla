---------------------------------- MODULE GenMech ----------------------------------
(* C09.  A level: what the driver of instrumented generators may rely on; M level:      *)
(* the token machine of overlay.proceed across yields.                                  *)
(* World (harness/worlds/lifeworld.py): gen(2) calls g(k) and yields, twice; overlay o1 *)
(* carries 'gen > g > a' (needs the generator as an ancestor), o2 carries 'g > a', o3   *)
(* carries 'drive > g > a' where drive is the instrumented function the driver's own     *)
(* code may be running in (the caller's enclosing function, second half of C09).         *)
(* Collection items: R1 / R2 / R3 = root pair of o1 / o2 / o3, K1 / K3 = child pair      *)
(* <<g(!a), fork>> that HandlerCollection.proceed adds on entering gen under R1 / drive   *)
(* under R3.  (The child selectors of o1 and o3 are the SAME interned object.)           *)
EXTENDS Integers, Sequences, FiniteSets, TLC
Gens == {"g1", "g2"}
Ovls == {"o1", "o2", "o3"}
Root(o) == CASE o = "o1" -> "R1" [] o = "o2" -> "R2" [] o = "o3" -> "R3"
Count(c, x) == Len(SelectSeq(c, LAMBDA y : y = x))

\* ------------- M: mechanism state m = [cur, otok, gtok, gst, ost]
MInit == [cur |-> <<>>, otok |-> [o \in Ovls |-> <<>>], gtok |-> [g \in Gens |-> <<>>],
          gst |-> [g \in Gens |-> "none"], ost |-> [o \in Ovls |-> "new"], dtok |-> <<>>, indrive |-> FALSE]
\* HandlerCollection.proceed(gen): every pair is kept; each R1 is followed by its child K1
RECURSIVE ProceedGen(_)
ProceedGen(c) == IF c = <<>> THEN <<>>
                 ELSE (IF Head(c) = "R1" THEN <<"R1", "K1">> ELSE <<Head(c)>>) \o ProceedGen(Tail(c))
\* HandlerCollection.proceed(drive): each R3 is followed by its child K3; leaving drive restores the token
RECURSIVE ProceedDrive(_)
ProceedDrive(c) == IF c = <<>> THEN <<>>
                   ELSE (IF Head(c) = "R3" THEN <<"R3", "K3">> ELSE <<Head(c)>>) \o ProceedDrive(Tail(c))
MDrive(m) == [m EXCEPT !.dtok = m.cur, !.cur = ProceedDrive(m.cur), !.indrive = TRUE]
MUndrive(m) == [m EXCEPT !.cur = m.dtok, !.indrive = FALSE]
MEnter(m, o) == [m EXCEPT !.otok[o] = m.cur, !.cur = Append(m.cur, Root(o)), !.ost[o] = "open"]
MExit(m, o)  == [m EXCEPT !.cur = m.otok[o], !.ost[o] = "closed"]              \* reset(token)
MNew(m, g)   == [m EXCEPT !.gst[g] = "new"]
\* events a call of g delivers, matched against the collection current at that moment
FiresO1(c) == Count(c, "K1")
FiresO2(c) == Count(c, "R2")
FiresO3(c) == Count(c, "K3")
Fires(c, o) == CASE o = "o1" -> FiresO1(c) [] o = "o2" -> FiresO2(c) [] o = "o3" -> FiresO3(c)
\* next(): first call enters proceed (token := cur; cur := ProceedGen(cur)) and runs to the first yield *inside*
\* the with-proceed block; later calls resume there; the third call ends the generator: reset(token)
MNext(m, g) ==
  CASE m.gst[g] = "new"   -> LET c2 == ProceedGen(m.cur) IN
                             [m |-> [m EXCEPT !.gtok[g] = m.cur, !.cur = c2, !.gst[g] = "s1"], f |-> [o \in Ovls |-> Fires(c2, o)], k |-> 0]
    [] m.gst[g] = "s1"    -> [m |-> [m EXCEPT !.gst[g] = "s2"], f |-> [o \in Ovls |-> Fires(m.cur, o)], k |-> 1]
    [] m.gst[g] = "s2"    -> [m |-> [m EXCEPT !.gst[g] = "done", !.cur = m.gtok[g]], f |-> [o \in Ovls |-> 0], k |-> 2]
    [] OTHER              -> [m |-> m, f |-> [o \in Ovls |-> 0], k |-> 3]
\* close / drop of a started generator: GeneratorExit at the yield, proceed.__exit__ restores the token
MEnd(m, g) == IF m.gst[g] \in {"s1", "s2"} THEN [m EXCEPT !.gst[g] = "done", !.cur = m.gtok[g]]
              ELSE [m EXCEPT !.gst[g] = IF m.gst[g] = "none" THEN "none" ELSE "done"]

\* ------------- A: abstract state a = [open (sequence of open overlays), gst]
\* indrive: the driver's code runs inside drive; o3d: o3 was open when drive was entered (the activation it can match)
AInit == [open |-> <<>>, gst |-> [g \in Gens |-> "none"], indrive |-> FALSE, o3d |-> FALSE]
IsOpen(a, o) == \E i \in DOMAIN a.open : a.open[i] = o
\* the driver sees exactly the root pairs of the open overlays, independent of generator states
\* the selector of the caller's enclosing function keeps matching: every g called while drive runs - by the driver's code
\* itself or by a generator it resumes - is a g under drive
UnderDrive(a) == a.indrive /\ a.o3d /\ IsOpen(a, "o3")
\* a resumption that runs g inside the generator: o1 and o2 fire once each if open, o3 if the resumption happens under drive
ANextFires(a, g, o) == IF a.gst[g] \in {"new", "s1"} /\ (IF o = "o3" THEN UnderDrive(a) ELSE IsOpen(a, o)) THEN 1 ELSE 0
\* the driver's own call of g: never under the generator
ACallFires(a, o) == IF (o = "o2" /\ IsOpen(a, o)) \/ (o = "o3" /\ UnderDrive(a)) THEN 1 ELSE 0
\* what the driver sees installed: the root pairs of the open overlays, plus o3's child pair while it runs inside drive
RECURSIVE ACurOf(_, _)
ACurOf(open, drive) == IF open = <<>> THEN <<>>
                       ELSE (IF Head(open) = "o3" /\ drive THEN <<"R3", "K3">> ELSE <<Root(Head(open))>>) \o ACurOf(Tail(open), drive)
ACur(a) == ACurOf(a.open, a.indrive /\ a.o3d)
ANextState(s) == CASE s = "new" -> "s1" [] s = "s1" -> "s2" [] s = "s2" -> "done" [] OTHER -> s
=============================================================================
