--------------------------------- MODULE EnvelopePair ---------------------------------
(* C06, last clause ("begin/end pairs are always properly nested" - and, for activations that  *)
(* overlap without nesting, properly PAIRED): several generator activations of one function    *)
(* fn(): yield; yield  are alive at the same time under the wrapper probe                     *)
(*     fn(!#enter, !!#exit)                                                                   *)
(* whose events carry a block identity ($wrap.id, what kwrap / wmap pair begin and end by).    *)
(* This module generates every driving history of the instances (next / close / drop, any      *)
(* interleaving, up to MaxOps operations); TraceEnvelopePair.tla states what the identities     *)
(* of the real events must satisfy.                                                            *)
EXTENDS Naturals, Sequences, TLC, Json
CONSTANTS Insts, MaxOps
VARIABLES st, hist
\* an instance: "new" (created, not started), "y1" / "y2" (suspended at its first / second yield), "done"
Init == st = [i \in Insts |-> "new"] /\ hist = <<>>
Step(i, a) ==
  /\ st[i] # "done" /\ Len(hist) < MaxOps
  /\ st' = [st EXCEPT ![i] = IF a = "next" THEN (CASE @ = "new" -> "y1" [] @ = "y1" -> "y2" [] OTHER -> "done") ELSE "done"]
  /\ hist' = Append(hist, <<i, a>>)
Next == \E i \in Insts : \E a \in {"next", "close", "drop"} : Step(i, a)
Spec == Init /\ [][Next]_<<st, hist>>
Export == (Len(hist) = MaxOps \/ \A i \in Insts : st[i] = "done") => PrintT(<<"HIST", ToJson(hist)>>)
=============================================================================
