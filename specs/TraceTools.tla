-------------------------------- MODULE TraceTools --------------------------------
(* Real ptera.tools predicates, evaluated by the harness on a box of integer points   *)
(* and on short call sequences (throttle), validated against Tools.tla.               *)
EXTENDS Integers, Sequences, TLC, Json, IOUtils, TLCExt
T == INSTANCE Tools WITH NMax <- 1, SLo <- 0, SHi <- 0, ELo <- 0, EHi <- 0, VLo <- 0, VHi <- 0,
                         n <- 0, s <- 0, e <- 0, hasE <- FALSE, v <- 0
Cases == JsonDeserialize(IOEnv.TRACE_FILE)
VARIABLES cid, verdict
Expected(c) ==
  CASE c.k = "every"   -> T!AEvery(c.n, c.s, c.hasE, c.e, c.v)
    [] c.k = "between" -> T!ABetween(c.s, c.e, c.v)
    [] c.k = "lt"  -> T!ALt(c.n, c.v)
    [] c.k = "gt"  -> T!AGt(c.n, c.v)
    [] c.k = "lte" -> T!ALte(c.n, c.v)
    [] c.k = "gte" -> T!AGte(c.n, c.v)
RECURSIVE Thr(_, _, _, _)
Thr(st, period, vs, i) == IF i > Len(vs) THEN <<>>
                          ELSE LET r == T!ThrottleStep(st, period, vs[i]) IN <<r[2]>> \o Thr(r[1], period, vs, i + 1)
Ok(c) == IF c.k = "throttle" THEN Thr(T!None, c.n, c.vs, 1) = c.res ELSE Expected(c) = c.res
Init == cid \in 1..Len(Cases) /\ verdict = "todo"
Check == verdict = "todo" /\ verdict' = (IF Ok(Cases[cid]) THEN "ok" ELSE "MISMATCH") /\ UNCHANGED cid
Spec == Init /\ [][Check]_<<cid, verdict>>
Report == verdict = "MISMATCH" => PrintT(<<"FAIL", cid, Cases[cid]>>)
=============================================================================
