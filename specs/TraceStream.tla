-------------------------------- MODULE TraceStream --------------------------------
(* C17: a probe's stream opens once, completes once at exit, and is silent outside.     *)
(* State machine of one probe with pipeline stages attached at arbitrary times:         *)
(*   phase  new -> active -> done (activation at most once)                             *)
(*   a stage sees exactly the events delivered while the probe is active and after the  *)
(*   stage was attached; at deactivation (normal, exception, explicit) every stage is   *)
(*   completed exactly once; a reducing stage then publishes exactly one result, the    *)
(*   reduction of the events it saw (an empty max/min/last/sum has no result: the stage     *)
(*   gets an error instead - giving/reactivex semantics, trusted);                      *)
(*   afterwards the process is clean (original code, no handler, not registered).       *)
EXTENDS Integers, Sequences, FiniteSets, TLC, Json, IOUtils, TLCExt, SequencesExt, Functions

Traces == JsonDeserialize(IOEnv.TRACE_FILE)
VARIABLES tid, l, phase, seen, fails
vars == <<tid, l, phase, seen, fails>>
T == Traces[tid]
S == T.steps[l]

RECURSIVE SumSeq(_)
SumSeq(s) == IF s = <<>> THEN 0 ELSE Head(s) + SumSeq(Tail(s))
MaxSeq(s) == CHOOSE x \in ToSet(s) : \A y \in ToSet(s) : y <= x
MinSeq(s) == CHOOSE x \in ToSet(s) : \A y \in ToSet(s) : x <= y
\* what a stage of kind k that saw events ev must show: <<values, completed, errors>>
Owed(k, ev, closed) ==
  IF k = "accum" THEN <<ev, IF closed THEN 1 ELSE 0, 0>>
  ELSE IF ~closed THEN <<<<>>, 0, 0>>
  ELSE CASE k = "count" -> << <<Len(ev)>>, 1, 0>>
         [] k = "sum"   -> IF ev = <<>> THEN <<<<>>, 0, 1>> ELSE << <<SumSeq(ev)>>, 1, 0>>
         [] k = "max"   -> IF ev = <<>> THEN <<<<>>, 0, 1>> ELSE << <<MaxSeq(ev)>>, 1, 0>>
         [] k = "min"   -> IF ev = <<>> THEN <<<<>>, 0, 1>> ELSE << <<MinSeq(ev)>>, 1, 0>>
         [] k = "last"  -> IF ev = <<>> THEN <<<<>>, 0, 1>> ELSE << <<ev[Len(ev)]>>, 1, 0>>

Init == /\ tid \in 1..Len(Traces) /\ l = 1 /\ phase = "new" /\ seen = <<>> /\ fails = <<>>
        /\ TLCSet(tid, <<0, <<>>>>)
\* seen: function stage id -> [kind, ev, live (attached while the stream could still reach it), closed]
Sids(s) == DOMAIN s
F(clause, who, why) == [line |-> l, clause |-> clause, who |-> who, why |-> why]
CheckStages(sn, ph) ==
  LET bad == { sid \in DOMAIN sn :
                 IF sid \notin DOMAIN S.stages THEN TRUE      \* the stage could not even be attached (total verdicts)
                 ELSE
                 LET o == Owed(sn[sid].kind, sn[sid].ev, sn[sid].closed)
                     g == S.stages[sid]
                 IN IF g.bare THEN g.vals # o[1]      \* a stage subscribed with on_next only: completion and errors are not observable
                    ELSE ~(g.vals = o[1] /\ g.done = o[2] /\ g.err = o[3]) }
      emptyred == \E sid \in DOMAIN sn : sn[sid].closed /\ sn[sid].ev = <<>> /\ sn[sid].kind \in {"max", "min", "last", "sum"}
  IN SetToSeq({ F("StageOutput", sid, IF emptyred THEN "empty-reduction" ELSE "") : sid \in bad })
\* "doneX": deactivated from inside a call of the probed function (what the execution context holds afterwards is C05's business)
IsDone(ph) == ph \in {"done", "doneX"}
CheckClean(ph) ==
  LET clean == S.orig /\ (S.curnone \/ ph = "doneX") /\ ~S.registered
      emptyred == \E sid \in DOMAIN seen : seen[sid].ev = <<>> /\ seen[sid].kind \in {"max", "min", "last", "sum"} /\ seen[sid].live
  IN IF ph = "active" THEN (IF ~S.orig /\ ~S.curnone /\ S.registered THEN <<>> ELSE <<F("NotInstalled", "", "")>>)
     ELSE IF clean THEN <<>> ELSE <<F("NotClean", "", IF emptyred THEN "empty-reduction" ELSE "")>>

Step ==
  /\ l <= Len(T.steps) /\ l' = l + 1 /\ UNCHANGED tid
  /\ LET op == S.op IN
     CASE op[1] = "stage" ->
            LET sn == (op[2] :> [kind |-> op[3], ev |-> <<>>, live |-> ~IsDone(phase), closed |-> FALSE,
                                     bare |-> Len(op) > 3 /\ op[4] = "bare", boom |-> Len(op) > 3 /\ op[4] = "boom",
                                     reent |-> Len(op) > 3 /\ op[4] = "reent", ord |-> Cardinality(DOMAIN seen) + 1]) @@ seen
            IN /\ seen' = sn /\ phase' = phase
               /\ fails' = fails \o CheckStages(sn, phase) \o CheckClean(phase)
                           \o (IF S.outcome = "ok" THEN <<>> ELSE <<F("Outcome", "stage", S.outcome)>>)
       [] op[1] \in {"act", "react"} ->
            LET ok == phase = "new"
                ph2 == IF ok THEN "active" ELSE phase
            IN /\ phase' = ph2 /\ seen' = seen
               /\ fails' = fails \o CheckStages(seen, ph2) \o CheckClean(ph2)
                           \o (IF (S.outcome = "ok") = ok THEN <<>> ELSE <<F("ActivateOnce", "", S.outcome)>>)
       [] op[1] = "deact" ->
            LET sn == [sid \in DOMAIN seen |-> IF seen[sid].live THEN [seen[sid] EXCEPT !.closed = TRUE] ELSE seen[sid]]
                \* an empty max/min/last/sum has no result: giving reports that as a stream error, which is raised from the
                \* deactivation when the stage was subscribed without an error handler (trusted giving/reactivex semantics)
                \* ... and a completion callback that raises (an abort request, not an Exception) is raised from the deactivation too -
                \* after every pipeline was completed and the probe deactivated
                mustRaise == \E sid \in DOMAIN sn : sn[sid].live /\ ((sn[sid].bare /\ sn[sid].ev = <<>> /\ sn[sid].kind \in {"max", "min", "last", "sum"})
                                                                     \/ (sn[sid].boom /\ (sn[sid].kind = "accum" \/ sn[sid].ev # <<>> \/ sn[sid].kind = "count")))
                ph2 == IF phase = "doneX" THEN "doneX" ELSE "done"
            IN /\ phase' = ph2 /\ seen' = sn
               /\ fails' = fails \o CheckStages(sn, ph2) \o CheckClean(ph2)
                           \o (IF (S.outcome = "ok") = ~mustRaise THEN <<>>
                               ELSE <<F("DeactivateOutcome", "", S.outcome)>>)
       [] op[1] = "calld" ->
            \* ["calld", v, how, sid]: f(v) is called; when it reaches its call of g the probe is deactivated and an accumulating
            \* stage sid is attached; f then goes on (T.per = 2: its second event falls after the deactivation)
            LET first == IF phase = "active"
                         THEN [sid \in DOMAIN seen |-> IF seen[sid].live THEN [seen[sid] EXCEPT !.ev = Append(@, op[2] + 1)] ELSE seen[sid]]
                         ELSE seen
                closed == [sid \in DOMAIN first |-> IF first[sid].live THEN [first[sid] EXCEPT !.closed = TRUE] ELSE first[sid]]
                sn == (op[4] :> [kind |-> "accum", ev |-> <<>>, live |-> FALSE, closed |-> FALSE, bare |-> FALSE, boom |-> FALSE,
                                 reent |-> FALSE, ord |-> Cardinality(DOMAIN seen) + 1]) @@ closed
            IN /\ phase' = "doneX" /\ seen' = sn
               /\ fails' = fails \o CheckStages(sn, "doneX") \o CheckClean("doneX")
                           \o (IF S.outcome = "ok" THEN <<>> ELSE <<F("Outcome", "calld", S.outcome)>>)
       [] op[1] = "call" ->
            \* a live re-entrant listener R (attached as an accumulating stage; histories with one such stage use the plain selector)
            \* calls f(a + 100) from inside the delivery of the event a = v + 1: the stages attached before R, and R itself, see
            \* the outer event first, the stages attached after R see the inner one first (observers are served in order)
            LET RS == {sid \in DOMAIN seen : seen[sid].live /\ seen[sid].reent}
                e1 == op[2] + 1
                e2 == op[2] + 102
                sn == IF phase # "active" THEN seen
                      ELSE IF RS = {} THEN [sid \in DOMAIN seen |-> IF seen[sid].live THEN [seen[sid] EXCEPT !.ev = @ \o [i \in 1..T.per |-> e1]] ELSE seen[sid]]
                      ELSE LET R == CHOOSE r \in RS : \A q \in RS : seen[r].ord <= seen[q].ord
                           IN [sid \in DOMAIN seen |-> IF ~seen[sid].live THEN seen[sid]
                                                        ELSE IF seen[sid].ord <= seen[R].ord THEN [seen[sid] EXCEPT !.ev = @ \o <<e1, e2>>]
                                                        ELSE [seen[sid] EXCEPT !.ev = @ \o <<e2, e1>>]]
            IN /\ seen' = sn /\ phase' = phase
               /\ fails' = fails \o CheckStages(sn, phase) \o CheckClean(phase)
                           \o (IF S.outcome = "ok" THEN <<>> ELSE <<F("Outcome", "call", S.outcome)>>)
Spec == Init /\ [][Step]_vars
Progress == TLCSet(tid, <<l - 1, fails>>)
Post == \A i \in 1..Len(Traces) :
          LET r == TLCGet(i) IN
          /\ (r[1] # Len(Traces[i].steps) => PrintT(<<"INCOMPLETE", Traces[i].id, r[1]>>))
          /\ \A k \in DOMAIN r[2] : PrintT(<<"FAIL", Traces[i].id, r[2][k]>>)
=============================================================================
