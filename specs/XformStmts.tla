--------------------------------- MODULE XformStmts ---------------------------------
(* M level of the AST rewrite for the other statements that bind a variable or end an     *)
(* activation (transform.PteraTransformer: visit_AugAssign, visit_AnnAssign, visit_NamedExpr, *)
(* visit_For + generate_interactions, visit_With, visit_ExceptHandler, visit_Import(From),      *)
(* visit_match_case, visit_Return, and the instrumented `return None` appended to the body), in the action vocabulary of  *)
(* Xform.tla, plus                                                                          *)
(*     next              a loop iteration begins: the iteration value <<"V">> arrives        *)
(*     aug               the in-place / binary operation of an augmented assignment          *)
(*     rebind v src      v is assigned the value it already holds (ptera's `v = interact(v)` *)
(*                       after Python's own binding): not observable, erased like interact   *)
(*     cm_enter          __enter__ of a context manager                                      *)
(*     return src        the activation ends normally with that value                        *)
(*     notimplemented    generate_interactions raises NotImplementedError for the target     *)
(* A level: Transparent (same actions as Python once interact / rebind are erased) and        *)
(* Stream (one interaction per binding of an instrumented name, and one #value interaction    *)
(* per normal completion, in order, with the value).  TLC classifies every difference.        *)
EXTENDS Xform

\* ------------------------------------------------------------------ statement shapes
Aug(t) == [s |-> "aug", t |-> t, e |-> [e |-> "site", k |-> 2]]
Ann(v) == [s |-> "ann", v |-> v, e |-> [e |-> "site", k |-> 2]]
Decl(v) == [s |-> "decl", v |-> v]
Walrus(v) == [s |-> "walrus", v |-> v, e |-> [e |-> "site", k |-> 2]]
For(t) == [s |-> "for", t |-> t]
Except(n) == [s |-> "except", name |-> n]
NoT == [t |-> "none"]
With(t) == [s |-> "with", t |-> t, k |-> 3]                \* t: a target (name, attribute, subscript, tuple, starred) or NoT
Import(n) == [s |-> "import", name |-> n]
Match(ns) == [s |-> "match", names |-> ns, k |-> 3]        \* match <subject>: case (<capture patterns ns>): ...
Return == [s |-> "return", e |-> [e |-> "site", k |-> 2]]
FallOff == [s |-> "falloff"]

\* ------------------------------------------------------------------ Python
Py2(st) ==
  CASE st.s = "aug" ->
         (IF st.t.t = "sub" THEN PyEval(st.t.e) ELSE <<>>) \o PyEval(st.e) \o << <<"aug">> >>
         \o (CASE st.t.t = "name" -> << <<"bind", st.t.v, <<"R">>>> >>
               [] st.t.t = "attr" -> << <<"setattr", st.t.v, st.t.a, <<"R">>>> >>
               [] st.t.t = "sub" -> << <<"setitem", st.t.v, <<"R">>>> >>)
    [] st.s = "ann" -> PyEval(st.e) \o << <<"bind", st.v, <<"V">>>> >>
    [] st.s = "decl" -> <<>>
    [] st.s = "walrus" -> PyEval(st.e) \o << <<"bind", st.v, <<"V">>>> >>
    [] st.s = "for" -> << <<"next">> >> \o PyStore(st.t, <<"V">>)
    [] st.s = "except" -> IF st.name = "" THEN <<>> ELSE << <<"bind", st.name, <<"E">>>> >>
    [] st.s = "with" -> << <<"eval", st.k>>, <<"cm_enter">> >> \o (IF st.t = NoT THEN <<>> ELSE PyStore(st.t, <<"W">>))
    [] st.s = "import" -> << <<"bind", st.name, <<"M">>>> >>
    [] st.s = "match" -> << <<"eval", st.k>> >> \o [i \in DOMAIN st.names |-> <<"bind", st.names[i], <<"V", ToString(i - 1)>>>>]
    [] st.s = "return" -> PyEval(st.e) \o << <<"return", <<"V">>>> >>
    [] st.s = "falloff" -> << <<"return", <<"None">>>> >>

\* ------------------------------------------------------------------ ptera
\* `v = frame.interact('v', None, ann, v, True)` right after Python's own binding of v to src
After(I, v, src) == IF Instr(I, v) THEN << <<"interact", v, "none", src>>, <<"rebind", v, src>> >> ELSE <<>>
\* generate_interactions(target): names, tuples / lists of targets, a starred name; stores into objects (attribute,
\* subscript) are not variable bindings.  LoopTargets = "names-only" is the tree before fix d4bbee3: anything but
\* names and tuples of names raised NotImplementedError and the whole function could not be instrumented.
CONSTANTS LoopTargetsSupported, WithRewritten, FallOffRewritten, MatchCapturesKnown
\* The interactions are generated AFTER Python has stored into the whole target: `v = interact(v)` reads the variable as it is then -
\* for a name that occurs twice in one target (for a, a in ...) that is the value of its LAST occurrence, both times.
FinalSrc(root, rootsrc, v) == LET b == SelectSeq(PyStore(root, rootsrc), LAMBDA a : a[1] = "bind" /\ a[2] = v) IN b[Len(b)][3]
RECURSIVE GenR(_, _, _, _, _)
GenR(t, src, I, root, rootsrc) ==
  CASE t.t = "name" -> After(I, t.v, FinalSrc(root, rootsrc, t.v))
    [] t.t = "tuple" -> Cat(LAMBDA i : GenR(t.elts[i], Append(src, IF t.elts[i].t = "star" THEN "rest" ELSE ToString(EltIx(t, i))), I, root, rootsrc), Len(t.elts))
    [] t.t = "star" /\ LoopTargetsSupported -> After(I, t.v, FinalSrc(root, rootsrc, t.v))
    [] t.t \in {"attr", "sub"} /\ LoopTargetsSupported -> <<>>
    [] OTHER -> << <<"notimplemented">> >>
GenI(t, src, I) == GenR(t, src, I, t, src)
RECURSIVE GenIOld(_, _, _)
GenIOld(t, src, I) ==
  CASE t.t = "name" -> After(I, t.v, src)
    [] t.t = "tuple" -> Cat(LAMBDA i : GenIOld(t.elts[i], Append(src, IF t.elts[i].t = "star" THEN "rest" ELSE ToString(EltIx(t, i))), I), Len(t.elts))
    [] t.t = "star" /\ LoopTargetsSupported -> After(I, t.v, src)
    [] t.t \in {"attr", "sub"} /\ LoopTargetsSupported -> <<>>
    [] OTHER -> << <<"notimplemented">> >>
NotImpl(acts) == \E i \in DOMAIN acts : acts[i][1] = "notimplemented"
X2(st, I) ==
  CASE st.s = "aug" ->      \* [generic_visit(node), *make_interaction(target, None, Name(target))] for an instrumented name target
         Py2(st) \o (IF st.t.t = "name" THEN After(I, st.t.v, <<"R">>) ELSE <<>>)
    [] st.s = "ann" -> PyEval(st.e) \o (IF Instr(I, st.v) THEN << <<"interact", st.v, "none", <<"V">>>> >> ELSE <<>>) \o << <<"bind", st.v, <<"V">>>> >>
    [] st.s = "decl" ->     \* v: T = frame.interact('v', None, T, ABSENT, True) - only when someone probes v
         IF Instr(I, st.v) THEN << <<"interact", st.v, "none", <<"ABSENT">>>>, <<"bind", st.v, <<"S">>>> >> ELSE <<>>
    [] st.s = "walrus" -> PyEval(st.e) \o (IF Instr(I, st.v) THEN << <<"interact", st.v, "none", <<"V">>>> >> ELSE <<>>) \o << <<"bind", st.v, <<"V">>>> >>
    [] st.s = "for" -> LET g == GenI(st.t, <<"V">>, I) IN IF NotImpl(g) THEN << <<"notimplemented">> >> ELSE Py2(st) \o g
    [] st.s = "except" -> Py2(st) \o (IF st.name = "" THEN <<>> ELSE After(I, st.name, <<"E">>))
    [] st.s = "with" ->        \* visit_With since fix 2ab3d3a: generate_interactions(optional_vars) at the head of the block
         Py2(st) \o (IF WithRewritten /\ st.t # NoT THEN GenI(st.t, <<"W">>, I) ELSE <<>>)
    [] st.s = "import" -> Py2(st) \o After(I, st.name, <<"M">>)
    [] st.s = "match" ->       \* visit_match_case since fix 6ec7608: one interaction per captured name at the head of the case body;
                               \* before, the names were taken for globals and prefetched at entry: the call failed there
         IF MatchCapturesKnown THEN Py2(st) \o Cat(LAMBDA i : After(I, st.names[i], <<"V", ToString(i - 1)>>), Len(st.names))
         ELSE IF \E i \in DOMAIN st.names : Instr(I, st.names[i]) THEN << <<"nameerror-at-entry">> >> ELSE Py2(st)
    [] st.s = "return" -> PyEval(st.e) \o (IF Instr(I, "#value") THEN << <<"interact", "#value", "none", <<"V">>>> >> ELSE <<>>) \o << <<"return", <<"V">>>> >>
    [] st.s = "falloff" ->                                                 \* since fix a77403d the body ends with an instrumented `return None`
         (IF FallOffRewritten /\ Instr(I, "#value") THEN << <<"interact", "#value", "none", <<"None">>>> >> ELSE <<>>) \o Py2(st)

RECURSIVE TNames(_)
TNames(t) == CASE t.t \in {"name", "star"} -> <<t.v>> [] t.t = "tuple" -> Cat(LAMBDA i : TNames(t.elts[i]), Len(t.elts)) [] OTHER -> <<>>
Repeats(t) == \E i, j \in DOMAIN TNames(t) : i # j /\ TNames(t)[i] = TNames(t)[j]
\* ------------------------------------------------------------------ A level
Erase2(acts) == SelectSeq(acts, LAMBDA a : a[1] \notin {"interact", "rebind"})
Transparent2(st, I) == Erase2(X2(st, I)) = Py2(st)
\* what the probes are owed: every binding of an instrumented name, and #value for every normal completion
Owed(st, I) == LET b == SelectSeq(Py2(st), LAMBDA a : (a[1] = "bind" /\ Instr(I, a[2])) \/ (a[1] = "return" /\ Instr(I, "#value")))
               IN [i \in DOMAIN b |-> IF b[i][1] = "bind" THEN <<b[i][2], b[i][3]>> ELSE <<"#value", b[i][2]>>]
Given(st, I) == LET b == SelectSeq(X2(st, I), LAMBDA a : a[1] = "interact" /\ a[3] = "none") IN [i \in DOMAIN b |-> <<b[i][2], b[i][4]>>]
Stream2(st, I) == Given(st, I) = Owed(st, I)
Signature2(st, I) ==
  LET x == X2(st, I) IN
  IF \E i \in DOMAIN x : x[i][1] = "nameerror-at-entry" THEN {"MatchCaptureTakenForGlobal"}
  ELSE IF NotImpl(x) THEN {"LoopTargetNotImplemented"}
  ELSE IF st.s = "decl" /\ Instr(I, st.v) THEN {"DeclaredOnlySupplied"}          \* the documented exception of C01 (C16 decides it)
  ELSE (IF ~Transparent2(st, I) THEN {"OtherOrder"} ELSE {}) \cup
       (IF Stream2(st, I) THEN {}
        ELSE IF st.s \in {"for", "with"} /\ Repeats(st.t) /\ (st.s = "for" \/ WithRewritten) THEN {"RepeatedNameFinalValue"}
        ELSE IF st.s = "with" THEN {"WithTargetNoEvent"}
        ELSE IF st.s = "falloff" THEN {"FallOffNoValue"}
        ELSE {"StreamDiffers"})

\* ------------------------------------------------------------------ bounded shape space
LoopElts == {Nm("a"), Nm("b"), St("c"), At("o", "p"), Sb("o", 7)}
LoopTargets == {Nm("a"), At("o", "p"), Sb("o", 7)} \cup {Tp(s) : s \in {x \in Seqs(LoopElts, 2) : OneStar(x)}}
               \cup {Tp(<<Nm("a"), Tp(<<Nm("b"), Nm("c")>>)>>), Tp(<<Tp(<<Nm("a"), St("c")>>), Nm("b")>>)}
Stmts2 == {Aug(t) : t \in Atoms} \cup {Ann("a"), Decl("a"), Walrus("a"), Except("a"), Except(""), With(Nm("w")), With(NoT), Import("a"), Return, FallOff, Match(<<"a">>), Match(<<"a", "b">>), Match(<<"b", "a", "c">>)}
          \cup {For(t) : t \in LoopTargets} \cup {With(t) : t \in LoopTargets}
\* what the conformance run needs: the stream of a statement as text - <<name, path of the value inside the iteration / context value>>
RECURSIVE Path(_)
Path(src) == IF Len(src) = 1 THEN src[1] ELSE Path(SubSeq(src, 1, Len(src) - 1)) \o "." \o src[Len(src)]
GivenText(st, I) == [i \in DOMAIN Given(st, I) |-> <<Given(st, I)[i][1], Path(Given(st, I)[i][2])>>]
InstrSets2 == {{"*"}} \cup SUBSET {"a", "b", "c", "o", "w", "#value"}
=============================================================================
