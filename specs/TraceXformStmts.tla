------------------------------- MODULE TraceXformStmts -------------------------------
(* Conformance of XformStmts.tla with the real rewrite for the statements whose targets go        *)
(* through generate_interactions (for, with): generated functions                                *)
(*     def fs(o, V): for <target> in [V]: pass        def fs(o, V): with CM(V) as <target>: pass *)
(* are run with one probe per instrumented name; V is shaped like the target and every leaf is  *)
(* the text of its own path ("V.1.0", a starred name gets "V.rest").  The events delivered, in   *)
(* order, must be GivenText(st, I) - which XformStmtsMC shows equal to Python's binding order.   *)
(* The stores into the object o (attribute, subscript targets) must be Python's.                 *)
EXTENDS XformStmts, Json, IOUtils, TLCExt
Cases == JsonDeserialize(IOEnv.TRACE_FILE)
VARIABLES cid, done
RECURSIVE Tgt(_)
Tgt(j) == CASE j.t = "tuple" -> [t |-> "tuple", elts |-> [i \in DOMAIN j.elts |-> Tgt(j.elts[i])]]
            [] j.t = "sub" -> [t |-> "sub", v |-> j.v, e |-> [e |-> "site", k |-> j.e.k]]
            [] j.t = "attr" -> [t |-> "attr", v |-> j.v, a |-> j.a]
            [] OTHER -> [t |-> j.t, v |-> j.v]
StOf(c) == IF c.st.s = "for" THEN For(Tgt(c.st.t)) ELSE With(Tgt(c.st.t))
\* only the names that are variables of the function are probed (o is a parameter: its entry event is not part of the statement)
Want(c) == SelectSeq(GivenText(StOf(c), ToSet(c.I)), LAMBDA e : e[1] \in {"a", "b", "c", "w"})
WantStores(c) == LET acts == SelectSeq(Py2(StOf(c)), LAMBDA a : a[1] \in {"setattr", "setitem"})
                 IN [i \in DOMAIN acts |-> <<acts[i][1], Path(acts[i][Len(acts[i])])>>]
RECURSIVE FirstBad(_, _, _)
FirstBad(x, y, i) == IF i > Len(x) \/ i > Len(y) THEN i ELSE IF x[i] = y[i] THEN FirstBad(x, y, i + 1) ELSE i
Verdict(c) ==
  IF c.err # "" THEN <<"StmtActivation", 0>>
  ELSE IF c.events # Want(c) THEN <<"StmtStream", FirstBad(c.events, Want(c), 1)>>
  ELSE IF ~Stream2(StOf(c), ToSet(c.I)) THEN <<"RepeatedNameFinalValue", 0>>       \* real = the transcription, which breaks the stream law here
  ELSE IF c.stores # WantStores(c) THEN <<"StmtStores", FirstBad(c.stores, WantStores(c), 1)>>
  ELSE <<"ok", 0>>
Init2 == cid \in 1..Len(Cases) /\ done = FALSE
Check == ~done /\ done' = TRUE /\ UNCHANGED cid
Spec2 == Init2 /\ [][Check]_<<cid, done>>
Report2 == done => LET v == Verdict(Cases[cid]) IN v[1] # "ok" => PrintT(<<"FAIL", Cases[cid].id, v[1], v[2]>>)
=============================================================================
