---------------------------------- MODULE Tools ----------------------------------
(* Stock predicates of ptera.tools.                                                   *)
(* A level: what the names say (C12).  M level: transcription of Range.__call__ and   *)
(* of throttle.  ToolsBox.cfg checks A = M on a bounded integer box; TraceTools.tla   *)
(* validates the real predicates, evaluated on the same box, against the A level.     *)
EXTENDS Integers, TLC

\* ------------------------------------------------------------------ A level
AEvery(n, s, hasE, e, v)  == s <= v /\ (hasE => v < e) /\ (v - s) % n = 0
ABetween(a, b, v)         == a <= v /\ v < b
ALt(n, v)  == v < n
AGt(n, v)  == v > n
ALte(n, v) == v <= n
AGte(n, v) == v >= n

\* ------------------------------------------------------------------ M level (Range.__call__)
MRange(hasS, s, hasE, e, hasM, m, v) ==
  IF hasS /\ v < s THEN FALSE
  ELSE IF hasE /\ v >= e THEN FALSE
  ELSE IF hasM THEN ((v - (IF hasS THEN s ELSE 0)) + m) % m = 0
  ELSE TRUE
MEvery(n, s, hasE, e, v) == MRange(TRUE, s, hasE, e, TRUE, n, v)     \* every(modulo, start, end)
MBetween(a, b, v)        == MRange(TRUE, a, TRUE, b, FALSE, 1, v)    \* between(start, end)

\* throttle(period) as a two-variable machine: st = [cur, trig] or None
None == [none |-> TRUE]
ThrottleStep(st, period, v) ==      \* returns <<new state, result>>
  LET st1 == IF st = None THEN [cur |-> v, trig |-> v + period] ELSE st IN
  IF v = st1.cur THEN <<st1, TRUE>>
  ELSE IF v >= st1.trig THEN <<[cur |-> v, trig |-> st1.trig + period], TRUE>>
  ELSE <<st1, FALSE>>

\* ------------------------------------------------------------------ bounded box: A = M
CONSTANTS NMax, SLo, SHi, ELo, EHi, VLo, VHi
Neg4 == -4
Neg10 == -10
Neg20 == -20
VARIABLES n, s, e, hasE, v
Init == n \in 1..NMax /\ s \in SLo..SHi /\ e \in ELo..EHi /\ hasE \in BOOLEAN /\ v \in VLo..VHi
Next == UNCHANGED <<n, s, e, hasE, v>>
Spec == Init /\ [][Next]_<<n, s, e, hasE, v>>
EveryAgrees   == AEvery(n, s, hasE, e, v) = MEvery(n, s, hasE, e, v)
BetweenAgrees == ABetween(s, e, v) = MBetween(s, e, v)
=============================================================================
