INIT InitX
NEXT Next
CONSTANTS MaxLen = 4
  Alphabet = {"f", "x", "*", "#value", "@T", ">", "(", ")", "!", "!!", "$", ":", "=", "~", ",", "as", "", "[", "]", "'s'", "&", "!!!"}
CONSTRAINT Collect
INVARIANT Terminates
POSTCONDITION Report
CHECK_DEADLOCK FALSE
