---------------------------------- MODULE TraceRelay ----------------------------------
(* C09 for generators nested in one another: relay(n) iterates directly over the instrumented   *)
(* generator gen(n) in the header of its for statement (lifeworld.py); probes on 'gen > g > a'   *)
(* and 'relay > gen > g > a' are active; the driver advances relay `steps` times and then ends  *)
(* it from outside (close / drop / run to exhaustion), calls g itself, leaves the block, calls  *)
(* g again.  Ending the outer generator ends the inner one first (Python releases the iterable  *)
(* of a for statement before the enclosing with-blocks are left), so the activations complete   *)
(* in LIFO order and                                                                            *)
(*   Restored      after the end the current handler collection is the one in place when the    *)
(*                 generator was created, after the block the one in place before it            *)
(*   OneEventEach  every step that ran the inner generator's body delivered one event to each   *)
(*                 probe, nothing else did (the driver's own calls of g are not inside gen)      *)
(* One behaviour per case; one step per recorded observation (what is current while the          *)
(* generator is suspended is KF-C09-token's subject and is judged by TraceGen, not here).        *)
EXTENDS Naturals, Sequences, TLC, Json, IOUtils, TLCExt
Cases == JsonDeserialize(IOEnv.TRACE_FILE)
VARIABLES tid, l, atStart, atCreate, ran, bad
Init == tid \in 1..Len(Cases) /\ l = 1 /\ atStart = 0 /\ atCreate = 0 /\ ran = 0 /\ bad = ""
C == Cases[tid]
Min(a, b) == IF a < b THEN a ELSE b
Consume ==
  /\ l <= Len(C.trace) /\ bad = ""
  /\ LET s == C.trace[l]
         ran2 == CASE s.op = "next" -> Min(ran + 1, C.n)
                   [] s.op = "end" /\ C.end = "exhaust" -> C.n
                   [] OTHER -> ran
     IN /\ ran' = ran2
        /\ atStart' = (IF s.op = "start" THEN s.cur ELSE atStart)
        /\ atCreate' = (IF s.op = "create" THEN s.cur ELSE atCreate)
        /\ bad' = (IF s.inner # ran2 \/ s.path # ran2 THEN "OneEventEach"
                   ELSE IF s.op \in {"end", "call"} /\ l < Len(C.trace) - 1 /\ s.cur # atCreate THEN "Restored"
                   ELSE IF (s.op = "exit" \/ l = Len(C.trace)) /\ s.cur # atStart THEN "Restored"
                   ELSE "")
  /\ l' = l + 1 /\ UNCHANGED tid
Spec == Init /\ [][Consume]_<<tid, l, atStart, atCreate, ran, bad>>
Report == (bad # "" \/ l > Len(C.trace)) => (bad # "" => PrintT(<<"FAIL", C.id, bad, l - 1>>))
=============================================================================
