---------------------------------- MODULE XformMC ----------------------------------
(* Model checking Xform.tla: every statement shape x every instrumented set.  Collects   *)
(* each signature (class of difference between the rewrite and Python) with one witness   *)
(* and exports the shapes for the conformance run.                                        *)
EXTENDS Xform, Json
VARIABLES st, I
Init == st \in Stmts /\ I \in InstrSets
Next == UNCHANGED <<st, I>>
Spec == Init /\ [][Next]_<<st, I>>
Sig == Signature(st, I)
Collect ==
  LET old == TLCGet(1)
      new == {s \in Sig : s \notin DOMAIN old}
  IN IF new = {} THEN TRUE ELSE TLCSet(1, [s \in DOMAIN old \cup new |-> IF s \in DOMAIN old THEN old[s] ELSE <<ToJson(st), ToJson(I)>>])
InitX == Init /\ TLCSet(1, <<>>) /\ TLCSet(2, 0)
\* the laws hold exactly when no signature applies
LawsOrSignature == (Transparent(st, I) /\ Stream(st, I)) <=> (Sig = {})
\* what is never tolerated: a difference outside the three known classes
NoOtherDifference == "OtherOrder" \notin Sig /\ "StreamDiffers" \notin Sig
Export == (I = {"*"}) => PrintT(<<"SHAPE", ToJson(st)>>)
Report == \A s \in DOMAIN TLCGet(1) : PrintT(<<"SIGNATURE", s, TLCGet(1)[s][1], TLCGet(1)[s][2]>>)
=============================================================================
