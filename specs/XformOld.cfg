CONSTANT Mechanism = "index"
INIT InitX
NEXT Next
CONSTRAINT Collect
INVARIANT LawsOrSignature
INVARIANT NoOtherDifference
POSTCONDITION Report
CHECK_DEADLOCK FALSE
