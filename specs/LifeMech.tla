--------------------------------- MODULE LifeMech ---------------------------------
(* Level M for probe life cycles: transcription of what overlay.py / probe.py /        *)
(* transform.py do at activation and deactivation.                                     *)
(*   BaseOverlay.__enter__ : token := current; current := current.plus(handlers)       *)
(*   BaseOverlay.__exit__  : current := token            (ContextVar.reset)            *)
(*   autotool              : push the captures on every function of the selector       *)
(*                           (count += 1, capture multiset += 1), then verify();       *)
(*                           on refusal the pushes are undone (fix f118d10; the pinned *)
(*                           tree left them: constant UndoOnRefusal = FALSE)           *)
(*   autotool(undo)        : pop                                                       *)
(*   StackedTransforms.get : original code iff count = 0, else variant for the         *)
(*                           captures with a positive count                            *)
(*   SourceProxy.__exit__  : observers completed and cleared, then Probe._exit         *)
(* Pure operators over a mechanism state m = [cur, tok, cnt, caps, obs]; LifeMechMC    *)
(* explores all histories, TraceLife uses the same operators to tell a known deviation *)
(* (observation = mechanism prediction) from a new one.                                *)
EXTENDS LifeAbs
CONSTANT UndoOnRefusal

None == <<"None">>
CapsOf(p) == CASE p = "p1" -> {<<"f", "a">>}
               [] p = "p2" -> {<<"f", "b">>}
               [] p = "p3" -> {<<"f", "a">>, <<"g", "a">>}
               [] p = "p4" -> {<<"g", "a">>}
               [] p = "p5" -> {<<"f", "a">>, <<"f", "b">>}
               [] p = "p6" -> {<<"g", "a">>}
               [] p = "p7" -> {<<"f", "c:T">>}
               [] p = "p8" -> {<<"f", "c">>}
               [] p = "p9" -> {<<"f", "a">>}
               [] p = "p10" -> {<<"f", "a">>}
               [] p = "p11" -> {<<"f", "$:T">>}
               [] p \in {"p14", "p15"} -> {<<"f", "a">>}
               [] p = "p12" -> {<<"h1", "a">>}
               [] p = "p13" -> {<<"h2", "a">>}
               [] p = "bad" -> {<<"f", "zzz">>}
               [] p = "bad2" -> {<<"g", "#nope">>}
               [] p = "bad3" -> {}
               [] p = "bad4" -> {}
               [] p = "p17" -> {<<"g", "a">>}
               [] p = "p16" -> {<<"f", "a">>, <<"f", "b">>, <<"g", "a">>}
               [] p = "q2" -> {}
AllCapPairs == UNION {CapsOf(p) : p \in Probes}

MInit == [cur |-> None, tok |-> [p \in Probes |-> None],
          cnt |-> [fn \in Fns |-> 0], caps |-> [c \in AllCapPairs |-> 0],
          obs |-> [p \in Probes |-> FALSE]]

\* tooling is pushed / popped once per selector the probe was given, and the overlay holds one handler per selector
\* p10's two selectors are one interned selector on f (pushed twice); p16's two selectors concern different functions
Mult(p) == IF p = "p10" THEN 2 ELSE 1
HMult(p) == IF p \in {"p10", "p16"} THEN 2 ELSE 1
\* p17 names g at two levels: g is pushed twice (once without captures)
CMult(p) == IF p \in {"p10", "p17"} THEN 2 ELSE 1
Push(m, p, d) == [m EXCEPT !.cnt = [fn \in Fns |-> IF fn \in Touches(p) THEN @[fn] + d * CMult(p) ELSE @[fn]],
                           !.caps = [c \in AllCapPairs |-> IF c \in CapsOf(p) THEN @[c] + d * Mult(p) ELSE @[c]]]
Plus(c, p) == (IF c = None THEN <<>> ELSE c) \o [i \in 1..HMult(p) |-> p]

\* Probe._enter for a probe that was never activated
MActivate(m, p) ==
  LET m1 == Push(m, p, 1) IN                       \* _install_tooling
  IF Valid(p)
  THEN [m1 EXCEPT !.tok[p] = m.cur, !.cur = Plus(m.cur, p), !.obs[p] = TRUE]
  ELSE IF UndoOnRefusal THEN m ELSE m1             \* verify() raises
\* SourceProxy.__exit__ + Probe._exit
MDeactivate(m, p) == Push([m EXCEPT !.obs[p] = FALSE, !.cur = m.tok[p]], p, -1)

\* a probe deactivated from inside a call of f (at the point where f calls g): the rest of the call runs under the collection
\* the probe's token restores; when the call ends, proceed() puts back the collection that was current when it began
\* (only an instrumented f runs under proceed())
MDeactInCallEnd(m, p) == IF m.cnt["f"] > 0 THEN [MDeactivate(m, p) EXCEPT !.cur = m.cur] ELSE MDeactivate(m, p)
IsOrig(m, fn) == m.cnt[fn] = 0
Instrumented(m, c) == m.cnt[c[1]] > 0 /\ m.caps[c] > 0
InCur(m) == IF m.cur = None THEN {} ELSE {m.cur[i] : i \in DOMAIN m.cur}
\* a call delivers to p iff its handler is installed, its stream still has observers and every
\* variable it names is instrumented
Hears(m, p) == p \in InCur(m) /\ m.obs[p] /\ \A c \in CapsOf(p) : Instrumented(m, c)
=============================================================================
