--------------------------------- MODULE EnvelopeMC ---------------------------------
(* Envelope.tla over every configuration up to MaxLen body operations: kinds, scripts (a terminal *)
(* operation only last), drivers ((next | send)* then at most one throw / close; a driver that    *)
(* runs out of actions drops the generator), instrumented sets, entry-variable shapes.           *)
(* Checks the state invariants, collects every final-clause signature with a witness and exports *)
(* the configurations that are replayed in the real code.                                        *)
EXTENDS Envelope, Json
CONSTANT MaxLen

Seqs(S, n) == UNION {[1..m -> S] : m \in 0..n}
Scripts(kind) == {s \in Seqs(IF kind = "gen" THEN {"bind", "yield", "ret", "raise", "retfin"} ELSE {"bind", "ret", "raise", "retfin"}, MaxLen) :
                    \A i \in DOMAIN s : Terminal(s[i]) => i = Len(s)}
NY(s) == Cardinality({i \in DOMAIN s : s[i] = "yield"})
Drives(s) == {d \in Seqs({"next", "send", "throw", "close"}, NY(s) + 1) : \A i \in DOMAIN d : d[i] \in {"throw", "close"} => i = Len(d)}
Shapes == {[ext |-> <<>>, free |-> <<>>, params |-> <<>>], [ext |-> <<"G">>, free |-> <<"c">>, params |-> <<"p">>],
           [ext |-> <<"G", "H">>, free |-> <<>>, params |-> <<"p", "q">>]}
InstrSets == {{"*"}} \cup SUBSET Metas \cup {m \cup {"a", "p"} : m \in {{}, {"#enter"}, {"#yield", "#value"}}} \cup {{"G", "c", "p", "q", "H"}}
Init == \E kd \in {"fn", "gen"} : \E s \in Scripts(kd) : \E d \in (IF kd = "gen" THEN Drives(s) ELSE {<<>>}) : \E I \in InstrSets : \E sh \in Shapes :
          InitWith([kind |-> kd, script |-> s, drive |-> d, I |-> I, ext |-> sh.ext, free |-> sh.free, params |-> sh.params])
InitX == Init /\ TLCSet(1, <<>>)
Spec == Init /\ [][Next]_vars

Sig == IF Done THEN FinalSignature(cfg, out, obs) ELSE {}
Collect ==
  LET old == TLCGet(1)
      new == {s \in Sig : s \notin DOMAIN old}
  IN IF new = {} THEN TRUE ELSE TLCSet(1, [s \in DOMAIN old \cup new |-> IF s \in DOMAIN old THEN old[s] ELSE ToJson(cfg)])
\* the only deviation the transcription derives is the superseded return (KF-C06-superseded-return)
OnlyKnownSignature == Sig \subseteq {"SupersededReturnValue"}
Exported == "*" \in cfg.I \/ Cardinality(cfg.I) = 1 \/ cfg.I \in {{"a", "p"}, {"#enter", "a", "p"}, {"G", "c", "p", "q", "H"}, {"#error", "#exit"}, {"#yield", "#receive"}}
Export == (Done /\ Exported) => PrintT(<<"CFG", ToJson(cfg)>>)
Report == \A s \in DOMAIN TLCGet(1) : PrintT(<<"SIGNATURE", s, TLCGet(1)[s]>>)
=============================================================================
