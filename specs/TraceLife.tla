--------------------------------- MODULE TraceLife ---------------------------------
(* Batch validation of real probe life-cycle histories against LifeAbs.                *)
EXTENDS LifeMech, Json, IOUtils, TLCExt, SequencesExt

Traces == JsonDeserialize(IOEnv.TRACE_FILE)
VARIABLES tid, l, status, expect, order, nonlifo, fails, m, mrecv, incall, lraised
vars == <<tid, l, status, expect, order, nonlifo, fails, m, mrecv, incall, lraised>>
T == Traces[tid]
S == T.steps[l]

Init == /\ tid \in 1..Len(Traces) /\ l = 1
        /\ status = [p \in Probes |-> "new"] /\ expect = [p \in Probes |-> <<>>]
        /\ order = <<>> /\ nonlifo = FALSE /\ fails = <<>>
        /\ m = MInit /\ mrecv = [p \in Probes |-> 0] /\ incall = FALSE /\ lraised = FALSE
        /\ TLCSet(tid, <<0, <<>>>>)

RecSet(r) == { <<r[i][1], r[i][2]>> : i \in DOMAIN r }
Got(p) == [i \in DOMAIN S.obs.recv[p] |-> RecSet(S.obs.recv[p][i])]

RECURSIVE IsSubseq(_, _)
IsSubseq(a, b) == IF a = <<>> THEN TRUE ELSE IF b = <<>> THEN FALSE
                  ELSE IF Head(a) = Head(b) THEN IsSubseq(Tail(a), Tail(b)) ELSE IsSubseq(a, Tail(b))

\* clauses violated by the observation logged after this step, given the new abstract state
Clauses(st, ex) ==
  LET act == Active(st)
      incur == ToSet(S.obs.cur.ids)
  IN UNION { IF Got(p) = ex[p] THEN {}
             ELSE IF Len(Got(p)) < Len(ex[p]) /\ IsSubseq(Got(p), ex[p]) THEN {<<"Receives:lost", p>>}
             ELSE IF Len(ex[p]) < Len(Got(p)) /\ IsSubseq(ex[p], Got(p)) THEN {<<IF p \in act THEN "Receives:extra" ELSE "Silent", p>>}
             ELSE {<<"Receives:wrong", p>>} : p \in Probes }
     \cup { <<"Quiescent:code", fn>> : fn \in {x \in Fns : (\A p \in act : x \notin Touches(p)) /\ ~S.obs.orig[x]} }
     \* the next three clauses read ptera's own bookkeeping; they are skipped when this tree no longer exposes it
     \cup (IF ~S.obs.internals THEN {} ELSE
           { <<"Quiescent:count", fn>> : fn \in {x \in Fns : (\A p \in act : x \notin Touches(p))
                                                               /\ (S.obs.cnt[x] # 0 \/ S.obs.caps[x] # 0)} }
           \cup { <<"NoStaleHandlers", q>> : q \in incur \ act }
           \cup { <<"ActiveInstalled", p>> : p \in act \ incur })
     \cup (IF ToSet(S.obs.gp) = act THEN {} ELSE {<<"GlobalRegistry", "">>})

\* does the observation coincide with what the mechanism transcription predicts (known deviation) ?
MechExplains(m2, mr2) ==
  /\ S.obs.internals
  /\ S.obs.cur.none = (m2.cur = None)
  /\ (m2.cur # None => S.obs.cur.ids = m2.cur)
  /\ \A p \in Probes : Len(S.obs.recv[p]) = mr2[p]
  /\ \A fn \in Fns : S.obs.orig[fn] = IsOrig(m2, fn) /\ S.obs.cnt[fn] = m2.cnt[fn]
Rec(clause) == [line |-> l, clause |-> clause[1], who |-> clause[2], nonlifo |-> nonlifo', incall |-> incall', lraised |-> lraised',
                op |-> S.op[1], mech |-> MechExplains(m', mrecv')]
AddAll(f, cs) == f \o SetToSeq({Rec(c) : c \in cs})

Step ==
  /\ l <= Len(T.steps) /\ l' = l + 1 /\ UNCHANGED tid
  /\ incall' = (incall \/ S.op[1] = "calld")
  \* a listener of another probe raised at the end of a call while this history was going on
  /\ lraised' = (lraised \/ (S.op[1] = "call" /\ ListenerRaises(Active(status), S.op[2], S.op[3])))
  /\ LET op == S.op IN
     CASE op[1] = "calld" ->
            \* ["calld", v, p]: f(v); where f calls g, probe p (active) is deactivated; the call then finishes
            LET p == op[3]
                v == op[2]
                st2 == [status EXCEPT ![p] = "done"]
                ex2 == [q \in Probes |-> IF status[q] # "active" THEN expect[q]
                                          ELSE expect[q] \o BeforeG(q, v) \o (IF q = p THEN <<>> ELSE InG(q, v))]
                m1 == MDeactivate(m, p)
            IN /\ status' = st2 /\ expect' = ex2
               /\ nonlifo' = (nonlifo \/ (order # <<>> /\ order[Len(order)] # p))
               /\ order' = SelectSeq(order, LAMBDA q : q # p)
               /\ m' = MDeactInCallEnd(m, p)
               /\ mrecv' = [q \in Probes |-> mrecv[q] + (IF Hears(m, q) THEN Len(BeforeG(q, v)) ELSE 0) + (IF Hears(m1, q) THEN Len(InG(q, v)) ELSE 0)]
               /\ fails' = AddAll(fails, Clauses(st2, ex2) \cup
                                         (IF S.outcome = "ok" /\ S.ret = RetOf("f", v) THEN {} ELSE {<<"Return", "f">>}))
       [] op[1] = "calle" ->
            \* ["calle", v, q]: f(v); where f calls g, probe q (never used before) is activated, g runs under it, q is left again
            LET q == op[3]
                v == op[2]
                ok == status[q] = "new" /\ Valid(q)
                st2 == IF ok THEN [status EXCEPT ![q] = "done"] ELSE status
                ex2 == [r \in Probes |-> IF r = q /\ ok THEN expect[r] \o InG(q, v)
                                          ELSE IF status[r] = "active" THEN expect[r] \o EventsOf(r, "f", v) ELSE expect[r]]
                m1 == IF ok THEN MActivate(m, q) ELSE m
            IN /\ status' = st2 /\ expect' = ex2 /\ UNCHANGED <<order, nonlifo>>
               /\ m' = (IF ok THEN [MDeactivate(m1, q) EXCEPT !.cur = m.cur] ELSE m)
               /\ mrecv' = [r \in Probes |-> mrecv[r] + (IF r = q THEN (IF ok /\ Hears(m1, q) THEN Len(InG(q, v)) ELSE 0)
                                                          ELSE IF Hears(m, r) THEN Len(EventsOf(r, "f", v)) ELSE 0)]
               /\ fails' = AddAll(fails, Clauses(st2, ex2) \cup
                                         (IF S.outcome = "ok" /\ S.ret = RetOf("f", v) THEN {} ELSE {<<"Return", "f">>}))
       [] op[1] = "act" ->
            LET p == op[2]
                should == status[p] = "new" /\ Valid(p)
                okOutcome == IF should THEN S.outcome = "ok"
                             ELSE IF status[p] = "new" THEN S.outcome = RefusalClass(p)   \* refused selector
                             ELSE S.outcome # "ok"                                         \* second activation
                st2 == IF should THEN [status EXCEPT ![p] = "active"] ELSE status
            IN /\ status' = st2 /\ expect' = expect /\ nonlifo' = nonlifo
               /\ order' = IF should THEN Append(order, p) ELSE order
               /\ m' = (IF status[p] = "new" THEN MActivate(m, p) ELSE m) /\ mrecv' = mrecv
               /\ fails' = AddAll(fails, Clauses(st2, expect) \cup
                                         (IF okOutcome THEN {} ELSE {<<"ActivateOutcome", p>>}))
       [] op[1] = "deact" ->
            LET p == op[2]
                st2 == [status EXCEPT ![p] = "done"]
            IN /\ status' = st2 /\ expect' = expect
               /\ nonlifo' = (nonlifo \/ (order # <<>> /\ order[Len(order)] # p))
               /\ order' = SelectSeq(order, LAMBDA q : q # p)
               /\ m' = MDeactivate(m, p) /\ mrecv' = mrecv
               /\ fails' = AddAll(fails, Clauses(st2, expect) \cup
                                         (IF S.outcome = "ok" THEN {} ELSE {<<"DeactivateOutcome", p>>}))
       [] op[1] = "call" ->
            LET ex2 == [p \in Probes |-> IF status[p] = "active" THEN expect[p] \o EventsOf(p, op[2], op[3]) ELSE expect[p]]
            IN /\ expect' = ex2 /\ UNCHANGED <<status, order, nonlifo, m>>
               /\ mrecv' = [p \in Probes |-> mrecv[p] + IF Hears(m, p) THEN Len(EventsOf(p, op[2], op[3])) ELSE 0]
               /\ fails' = AddAll(fails, Clauses(status, ex2) \cup
                                         (IF ListenerRaises(Active(status), op[2], op[3])
                                          THEN (IF S.outcome = "KeyError" THEN {} ELSE {<<"ListenerError", op[2]>>})
                                          ELSE IF S.outcome = "ok" /\ S.ret = RetOf(op[2], op[3]) THEN {} ELSE {<<"Return", op[2]>>}))

       [] op[1] = "callno" ->
            \* with no_overlay(): fn(v) - no probe hears the call; the return value is the function's own
            /\ UNCHANGED <<status, order, nonlifo, m, expect, mrecv>>
            /\ fails' = AddAll(fails, Clauses(status, expect) \cup
                                      (IF S.outcome = "ok" /\ S.ret = RetOf(op[2], op[3]) THEN {} ELSE {<<"Return", op[2]>>}))

Spec == Init /\ [][Step]_vars
Progress == TLCSet(tid, <<l - 1, fails>>)
Post == \A i \in 1..Len(Traces) :
          LET r == TLCGet(i) IN
          /\ (r[1] # Len(Traces[i].steps) => PrintT(<<"INCOMPLETE", Traces[i].id, r[1]>>))
          /\ (Traces[i].teardown # "" =>
                PrintT(<<"FAIL", Traces[i].id, [line |-> 0, clause |-> "Quiescent:cannot-restore", who |-> Traces[i].teardown, nonlifo |-> FALSE,
                                                incall |-> FALSE, lraised |-> FALSE, op |-> "end", mech |-> FALSE]>>))
          /\ \A k \in DOMAIN r[2] : PrintT(<<"FAIL", Traces[i].id, r[2][k]>>)
=============================================================================
