-------------------------------- MODULE TraceEnvelope --------------------------------
(* Real activations (harness/drivers/env_driver.py: generated functions and generators with      *)
(* probes on the instrumented set, driven by next / send / throw / close / drop) validated        *)
(* against Envelope.tla.  One behaviour per case: the machine runs the case's configuration       *)
(* step by step; every interaction it emits must be the next one the real code delivered          *)
(* (a mismatch stops the behaviour there), and when it is done the driver's view must agree.      *)
(* Verdicts (total):                                                                              *)
(*   ok                               real = machine and every clause of C06 holds                *)
(*   <clause>, mech = TRUE            real = machine, the clause fails: a deviation the            *)
(*                                    transcription predicts (known finding)                      *)
(*   <clause>, mech = FALSE           real # machine and the real observation breaks the clause   *)
(*   EnvelopeDrift                    real # machine but every clause holds on the real            *)
(*                                    observation: the code no longer follows the transcription   *)
EXTENDS Envelope, Json, IOUtils, TLCExt
Cases == JsonDeserialize(IOEnv.TRACE_FILE)
VARIABLE tid
ToSet(s) == {s[i] : i \in DOMAIN s}
CfgOf(c) == [kind |-> c.cfg.kind, script |-> c.cfg.script, drive |-> c.cfg.drive, I |-> ToSet(c.cfg.I),
             ext |-> c.cfg.ext, free |-> c.cfg.free, params |-> c.cfg.params]
Real == Cases[tid]
Init == tid \in 1..Len(Cases) /\ InitWith(CfgOf(Cases[tid]))
\* the machine may only emit what the real code delivered next
Follows == Len(out') > Len(out) => (Len(out') <= Len(Real.out) /\ \A i \in (Len(out) + 1)..Len(out') : out'[i] = Real.out[i])
TNext == Next /\ UNCHANGED tid /\ Follows
Spec == Init /\ [][TNext]_<<vars, tid>>
Stuck == ~ENABLED TNext
FirstDiff == Len(out) + 1
Verdict ==
  LET same == Done /\ out = Real.out /\ obs = Real.obs
      sig == FinalSignature(cfg, Real.out, Real.obs) IN
  IF same THEN (IF sig = {} THEN <<"ok", TRUE, 0>> ELSE <<CHOOSE x \in sig : TRUE, TRUE, 0>>)
  ELSE IF sig # {} THEN <<CHOOSE x \in (IF sig = {"SupersededReturnValue"} THEN sig ELSE sig \ {"SupersededReturnValue"}) : TRUE, FALSE, FirstDiff>>
  ELSE <<"EnvelopeDrift", FALSE, FirstDiff>>
Report == Stuck => (Verdict[1] # "ok" => PrintT(<<"FAIL", Real.id, Verdict[1], Verdict[2], Verdict[3]>>))
=============================================================================
