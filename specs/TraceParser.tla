-------------------------------- MODULE TraceParser --------------------------------
(* Real selector.parse outcomes validated against Parser.tla.                          *)
(*   Agree      : the transcription predicts the real outcome (binding; drift = the     *)
(*                code no longer follows the specification)                             *)
(*   NoInternal : C18 - the real outcome is a selector or a SyntaxError                 *)
(*   Law        : C15 - the two spellings of a case pair have equal, identical parses   *)
(*   WS         : C15 - a re-spaced spelling lexes to the same tokens (Lex over lexemes)  *)
EXTENDS Parser, Json, IOUtils, TLCExt
Cases == JsonDeserialize(IOEnv.TRACE_FILE)
VARIABLES cid, done
Same(spec, real) == IF IsErr(spec) THEN real.k = "X" /\ real.cls = spec.cls
                    ELSE real.k # "X" /\ spec = real
RuleOf(toks) == LET r == Parse(toks) IN IF IsErr(r) THEN r.rule ELSE "-"
Verdicts(c) ==
  (IF c.kind = "parse" THEN
     (IF Same(Parse(c.toks), c.out) THEN {} ELSE {<<"Drift", "">>}) \cup
     (IF c.out.k = "X" /\ c.out.cls # "SyntaxError" THEN {<<"Internal", c.out.cls \o "@" \o RuleOf(c.toks)>>} ELSE {}) \cup
     \* C15: the focus the compiled selector reports (.main / .focus, read right after compilation and again at the
     \* end of the run) is the one its structure determines
     (IF c.out.k \in {"E", "C"} /\ c.attrs.ok
         /\ ~(c.attrs.main = DMain(c.out) /\ c.attrs.focus = DFocus(c.out) /\ c.attrs.main2 = c.attrs.main /\ c.attrs.focus2 = c.attrs.focus)
      THEN {<<"Focus", IF c.attrs.main = DMain(c.out) /\ c.attrs.focus = DFocus(c.out) THEN "changed-later" ELSE "wrong">>} ELSE {}) \cup
     \* C15: structurally equal compiled selectors are the same object - also across the whole run
     (IF c.out.k \in {"E", "C"} /\ ~c.attrs.same_later THEN {<<"Law", "interned-across-history">>} ELSE {})
   ELSE IF c.kind = "law" THEN
     (IF Same(Parse(c.ltoks), c.lout) /\ Same(Parse(c.rtoks), c.rout) THEN {} ELSE {<<"Drift", "">>}) \cup
     (IF c.lout.k # "X" /\ c.lout = c.rout /\ c.same THEN {} ELSE {<<"Law", c.law>>}) \cup
     (IF Parse(c.ltoks) = Parse(c.rtoks) THEN {} ELSE {<<"LawModel", c.law>>})
   ELSE IF c.kind = "distinct" THEN
     \* near misses: where the transcription tells two texts apart, the real compiler must not conflate them, and what the
     \* transcription refuses as malformed must not be accepted because something similar was compiled before
     LET ml == Parse(c.ltoks)  mr == Parse(c.rtoks) IN
     (IF ml # mr /\ c.lout = c.rout THEN {<<"Law", "near-miss-conflated">>} ELSE {}) \cup
     (IF IsErr(mr) /\ c.rout.k # "X" THEN {<<"NearMissAccepted", c.rtext>>} ELSE {}) \cup
     (IF ~IsErr(mr) /\ ~IsErr(ml) /\ c.lout.k # "X" /\ c.rout.k # "X" /\ c.same THEN {<<"Law", "near-miss-same-object">>} ELSE {})
   ELSE IF c.kind = "ws" THEN
     (IF [i \in DOMAIN Lex(c.lexemes) |-> [v |-> Lex(c.lexemes)[i].v, ty |-> Lex(c.lexemes)[i].ty]] = c.toks THEN {} ELSE {<<"DriftLexer", "">>}) \cup
     (IF c.out = c.base /\ (c.out.k \in {"E", "C"} => c.same) THEN {} ELSE {<<"Law", "whitespace">>})
   ELSE IF c.kind = "select" THEN
     (IF c.expect = "refuse" /\ c.outcome = "ok" THEN {<<"NotRefused", c.what>>} ELSE {}) \cup
     (IF c.expect = "accept" /\ c.outcome # "ok" THEN {<<"WronglyRefused", c.what>>} ELSE {}) \cup
     (IF c.outcome # "ok" /\ c.outcome \notin {c.allowed[i] : i \in DOMAIN c.allowed}
      THEN {<<"InternalAtSelect", c.outcome>>} ELSE {}) \cup
     \* the verdict on a selector is a function of the selector: repeating the activation, or reading the compiled
     \* selector's attributes in between, gives the same outcome
     (IF \E i \in DOMAIN c.again : c.again[i] # c.outcome THEN {<<"RefusalNotStable", c.what>>} ELSE {})
   ELSE {})
Init == cid \in 1..Len(Cases) /\ done = FALSE
Check == ~done /\ done' = TRUE /\ UNCHANGED cid
Spec == Init /\ [][Check]_<<cid, done>>
Report == done => \A v \in Verdicts(Cases[cid]) : PrintT(<<"FAIL", Cases[cid].id, v[1], v[2]>>)
=============================================================================
