CONSTANT Mechanism = "native"
CONSTANTS LoopTargetsSupported = TRUE  WithRewritten = TRUE  FallOffRewritten = TRUE  MatchCapturesKnown = TRUE
INIT InitX
NEXT Next
CONSTRAINT Collect
INVARIANT LawsOrSignature
INVARIANT NoOtherDifference
POSTCONDITION Report
CHECK_DEADLOCK FALSE
