---------------------------------- MODULE IcptMech ----------------------------------
(* C04, M level of the override rule: interpret.WorkingFrame.intercept and                *)
(* Interactor.interact for ONE binding of a variable with tentative value v under a list   *)
(* of intercepting handlers hs (activation order = list order):                           *)
(*     rval := ABSENT ; for h in hs : tmp := h(v) ; if tmp is not ABSENT : rval := tmp     *)
(*     value := rval if rval is not ABSENT else v ; log(value) ; trigger()                 *)
(* Every handler is shown the TENTATIVE value (not what an earlier handler answered).      *)
(* A level: the value stored is the answer of the most recently activated handler that     *)
(* does not decline, else the tentative value; observers see the stored value.             *)
(* Rule = "keep-last-answer" is the tree; "last-handler" is the seeded simplification      *)
(* (C04-6 / C12-4: rval := h(v) unconditionally), "chain" a plausible other reading        *)
(* (each handler sees the previous answer).  TLC compares M and A for every handler list   *)
(* up to MaxH over the handler kinds and every tentative value.                            *)
EXTENDS Integers, Sequences, FiniteSets, TLC
CONSTANTS MaxH, Values, Rule
Absent == -1
\* handler kinds: constant answer, always declining, answering only for small tentative values, tentative + 100
Kinds == {"const7", "const9", "decline", "iflt3", "plus100"}
Answer(k, v) == CASE k = "const7" -> 7 [] k = "const9" -> 9 [] k = "decline" -> Absent
                  [] k = "iflt3" -> (IF v < 3 THEN 55 ELSE Absent) [] k = "plus100" -> v + 100
\* ---------------- M
RECURSIVE MFold(_, _, _, _)
MFold(hs, i, v, rval) ==
  IF i > Len(hs) THEN rval
  ELSE LET shown == IF Rule = "chain" /\ rval # Absent THEN rval ELSE v
           tmp == Answer(hs[i], shown)
       IN MFold(hs, i + 1, v, IF Rule = "last-handler" THEN tmp ELSE IF tmp # Absent THEN tmp ELSE rval)
MStored(hs, v) == LET r == MFold(hs, 1, v, Absent) IN IF r # Absent THEN r ELSE v
\* ---------------- A
NonDeclining(hs, v) == {i \in DOMAIN hs : Answer(hs[i], v) # Absent}
AStored(hs, v) == IF NonDeclining(hs, v) = {} THEN v
                  ELSE Answer(hs[CHOOSE i \in NonDeclining(hs, v) : \A j \in NonDeclining(hs, v) : j <= i], v)
VARIABLES hs, v
Init == hs \in UNION {[1..n -> Kinds] : n \in 0..MaxH} /\ v \in Values
Next == UNCHANGED <<hs, v>>
Spec == Init /\ [][Next]_<<hs, v>>
Conforms == MStored(hs, v) = AStored(hs, v)
=============================================================================
