SPECIFICATION Spec
CONSTANTS Insts = {"A", "B"}  MaxOps = 5
INVARIANT Export
CHECK_DEADLOCK FALSE
