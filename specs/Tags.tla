----------------------------------- MODULE Tags -----------------------------------
(* C11, tag algebra.  A level: a tag annotation denotes a *set* of tag names; a tag     *)
(* selector T matches an annotation iff T is a member.  M level: transcription of        *)
(* tags.py (_merge, TagSet, match_tag, get_tags) and of the '@A & @B' string form that   *)
(* transform._ann splits with the regexp ' *& *'.  TagsMC checks A = M for every tag     *)
(* expression up to MaxLen names over the alphabet.                                      *)
EXTENDS Integers, Sequences, FiniteSets, TLC
CONSTANTS Names, MaxLen
\* ---------------- A level
ATags(seq) == {seq[i] : i \in DOMAIN seq}
AMatch(t, seq) == t \in ATags(seq)
\* ---------------- M level: values are [k |-> "tag", name] or [k |-> "set", members]
MTag(n) == [k |-> "tag", name |-> n]
MMembers(x) == IF x.k = "set" THEN x.members ELSE {x.name}
MMerge(a, b) == [k |-> "set", members |-> MMembers(a) \cup MMembers(b)]            \* _merge -> TagSet(frozenset)
\* tag.A & tag.B & ... : left fold of __and__
RECURSIVE MAndFold(_, _)
MAndFold(acc, rest) == IF rest = <<>> THEN acc ELSE MAndFold(MMerge(acc, MTag(Head(rest))), Tail(rest))
MObjectForm(seq) == MAndFold(MTag(Head(seq)), Tail(seq))
\* "@A & @B" : _ann -> get_tags(*names) : one name -> the Tag itself, several -> TagSet(list)
MStringForm(seq) == IF Len(seq) = 1 THEN MTag(seq[1]) ELSE [k |-> "set", members |-> {seq[i] : i \in DOMAIN seq}]
\* match_tag(to_match, tg): TagSet -> any(member == to_match) ; Tag -> identity (interned per name)
MMatch(t, x) == IF x.k = "set" THEN \E m \in x.members : m = t ELSE x.name = t

VARIABLES seq
Init == seq \in UNION {[1..n -> Names] : n \in 1..MaxLen}
Next == UNCHANGED seq
Spec == Init /\ [][Next]_seq
ObjectFormIsSet == MMembers(MObjectForm(seq)) = ATags(seq)
StringFormIsSet == MMembers(MStringForm(seq)) = ATags(seq)
MatchIsMembership == \A t \in Names : /\ MMatch(t, MObjectForm(seq)) = AMatch(t, seq)
                                      /\ MMatch(t, MStringForm(seq)) = AMatch(t, seq)
\* order and repetition of & are irrelevant: equal sets <=> equal TagSets (TagSet.__eq__ compares members)
OrderIrrelevant == \A other \in UNION {[1..n -> Names] : n \in 1..MaxLen} :
                     (ATags(other) = ATags(seq)) => (MMembers(MObjectForm(other)) = MMembers(MObjectForm(seq)))
=============================================================================
