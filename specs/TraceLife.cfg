SPECIFICATION Spec
CONSTANT UndoOnRefusal = TRUE
CONSTRAINT Progress
POSTCONDITION Post
CHECK_DEADLOCK FALSE
