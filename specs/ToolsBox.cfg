SPECIFICATION Spec
CONSTANTS NMax = 4  SLo <- Neg4  SHi = 4  ELo <- Neg4  EHi = 7  VLo <- Neg10  VHi = 11
INVARIANT EveryAgrees
INVARIANT BetweenAgrees
CHECK_DEADLOCK FALSE
