SPECIFICATION Spec
CONSTRAINT Report
CHECK_DEADLOCK FALSE
