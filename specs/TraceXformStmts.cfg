CONSTANT Mechanism = "native"
CONSTANTS LoopTargetsSupported = TRUE  WithRewritten = TRUE  FallOffRewritten = TRUE  MatchCapturesKnown = TRUE
SPECIFICATION Spec2
CONSTRAINT Report2
CHECK_DEADLOCK FALSE
