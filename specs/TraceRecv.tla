---------------------------------- MODULE TraceRecv ----------------------------------
(* Real method-selector runs validated against the A level of Recv.tla; the M level is    *)
(* evaluated alongside to recognise the known deviations (equality instead of identity,   *)
(* unhashable receivers).                                                                  *)
EXTENDS Recv, Json, IOUtils, TLCExt
Cases == JsonDeserialize(IOEnv.TRACE_FILE)
VARIABLES cid, done
Offset(m) == CASE m = "meth" -> 1 [] m = "other" -> 2 [] m = "deco" -> 3 [] m = "deco2" -> 7 [] m = "tree" -> 5 [] m = "glob" -> 6 [] m = "store" -> 9 [] m = "__call__" -> 11 [] OTHER -> 0
ExpectedV(c, i) == IF c.method \in {"prop", "prop2"} THEN -2 ELSE 10 + (i - 1) + Offset(c.method)
EventsOfCall(c, i) == SelectSeq(c.events, LAMBDA e : e.call = i)
\* instances strictly below o in the tree, i.e. reached by the recursive calls of o.tree
Below(o) == Subtree(o) \ {o}
Verdicts(c) ==
  IF c.outcome = "ok" /\ c.path = "nested2"
  THEN \* 'X.tree > Y.tree > v': one event per run of tree on Y that happens underneath a run of tree on X
       UNION { LET evs == EventsOfCall(c, i)
                   want == Cardinality({x \in Subtree(c.calls[i]) : x = c.target /\ c.target2 \in Below(x)})
               IN IF Len(evs) = want THEN {} ELSE {<<"NestedReceivers", IF Len(evs) > want THEN "extra" ELSE "missed">>}
             : i \in DOMAIN c.calls }
  ELSE IF c.outcome # "ok"
  THEN {<<"Refused", IF ~MAccepts(c.target) THEN "mech" ELSE c.outcome>>}
  ELSE UNION { LET evs == EventsOfCall(c, i)
                   \* when the method is an inner step of a call path (poll > obj.meth > v) only calls made under poll count
                   under == ~c.nested \/ c.via[i]
                   \* the recursive method runs once for every instance of the receiver's subtree
                   runs == IF c.method = "tree" THEN Subtree(c.calls[i]) ELSE {c.calls[i]}
                   want == IF under THEN Cardinality({r \in runs : AFires(c.target, r)}) ELSE 0
                   \* mechanism: at #enter the receiver parameter has not been captured yet, the constraint on it is not applied
                   \* (the same holds for the globals the method reads: they are reported at entry, before the parameters)
                   mwant == IF c.path \in {"enter", "external"} THEN Cardinality(runs)
                            ELSE IF under THEN Cardinality({r \in runs : MFires(c.target, r)}) ELSE 0
               IN (IF Len(evs) = want THEN {}
                   ELSE {<<IF Len(evs) > want THEN "WrongReceiverObserved" ELSE "ReceiverMissed",
                           IF Len(evs) = mwant THEN "mech" ELSE "other">>}) \cup
                  (IF c.path \in {"enter", "external"} \/ \A k \in DOMAIN evs : (c.method \in {"prop", "prop2"} \/ c.path \in {"selffocus", "callonly"} \/ evs[k].v = ExpectedV(c, i))
                                            /\ (c.target \in Classes \/ evs[k].self = (IF c.method = "tree" THEN c.target ELSE c.calls[i]))
                   THEN {} ELSE {<<"EventContent", "">>})
             : i \in DOMAIN c.calls }
       \cup (IF c.rets_ok THEN {} ELSE {<<"ReturnValue", "">>})
       \cup (IF c.plain_observed = 0 THEN {} ELSE {<<"PlainFunctionObserved", "">>})
Init2 == cid \in 1..Len(Cases) /\ done = FALSE
Check == ~done /\ done' = TRUE /\ UNCHANGED cid
Spec2 == Init2 /\ [][Check]_<<cid, done>>
Report2 == done => \A v \in Verdicts(Cases[cid]) : PrintT(<<"FAIL", Cases[cid].id, v[1], v[2]>>)
=============================================================================
