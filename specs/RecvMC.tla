---------------------------------- MODULE RecvMC ----------------------------------
(* Recv M level |= A level over every probed target and every call sequence up to MaxCalls. *)
EXTENDS Recv
CONSTANT MaxCalls
VARIABLES target, calls
Init == target \in Objs \cup Classes /\ calls = <<>>
Next == Len(calls) < MaxCalls /\ \E o \in Objs : calls' = Append(calls, o) /\ UNCHANGED target
Spec == Init /\ [][Next]_<<target, calls>>
Sig == (IF ~MAccepts(target) THEN {"UnhashableReceiverRefused"} ELSE {}) \cup
       (IF MAccepts(target) /\ \E i \in DOMAIN calls : MFires(target, calls[i]) /\ ~AFires(target, calls[i])
        THEN {"EqualButDistinctReceiverObserved"} ELSE {}) \cup
       (IF MAccepts(target) /\ \E i \in DOMAIN calls : ~MFires(target, calls[i]) /\ AFires(target, calls[i])
        THEN {"ReceiverMissed"} ELSE {})
Collect == /\ LET old == TLCGet(1)  new == {s \in Sig : s \notin DOMAIN old}
              IN IF new = {} THEN TRUE ELSE TLCSet(1, [s \in DOMAIN old \cup new |-> IF s \in DOMAIN old THEN old[s] ELSE <<target, calls>>])
           /\ (Len(calls) = MaxCalls => PrintT(<<"HIST", target, calls>>))
InitX == Init /\ TLCSet(1, <<>>)
Report == \A s \in DOMAIN TLCGet(1) : PrintT(<<"SIGNATURE", s, TLCGet(1)[s]>>)
=============================================================================
