--------------------------------- MODULE StreamGen ---------------------------------
(* Generates every history of at most MaxOps operations over the stream alphabet        *)
(* (C17); each complete history is exported and replayed with a real probe.             *)
EXTENDS Integers, Sequences, TLC
CONSTANTS MaxOps, Kinds, MaxStages
VARIABLES hist, nst, phase
Init == hist = <<>> /\ nst = 0 /\ phase = "new"
Op(o) == hist' = Append(hist, o)
Next == /\ Len(hist) < MaxOps
        /\ \/ \E k \in Kinds : nst < MaxStages /\ Op(<<"stage", nst + 1, k>>) /\ nst' = nst + 1 /\ UNCHANGED phase
           \/ phase = "new" /\ Op(<<"act">>) /\ phase' = "active" /\ UNCHANGED nst
           \/ phase # "new" /\ Op(<<"react">>) /\ UNCHANGED <<nst, phase>>
           \/ phase = "active" /\ Op(<<"deact">>) /\ phase' = "done" /\ UNCHANGED nst
           \/ Op(<<"call", Len(hist) + 1>>) /\ UNCHANGED <<nst, phase>>
Spec == Init /\ [][Next]_<<hist, nst, phase>>
Export == (Len(hist) = MaxOps \/ phase = "done") => PrintT(<<"HIST", hist>>)
=============================================================================
