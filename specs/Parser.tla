---------------------------------- MODULE Parser ----------------------------------
(* Level M for selector compilation: transcription of opparse.py (precedence tower,    *)
(* Parser.process, finalize), of both evaluators of selector.py (evaluate,              *)
(* value_evaluate) with Python's order of evaluation and failure, and of the lexer's    *)
(* treatment of white space.  Pure operators: Parse(toks) yields a selector tree, a     *)
(* list, or Err(class, rule) where `rule` names the code site that fails.               *)
(* Level A (C18): the only admissible failure class of parse() is SyntaxError.          *)
(* Level A (C15): the documented spellings have equal parses (ParserLaws.tla).          *)
EXTENDS Integers, Sequences, FiniteSets, TLC

None == [k |-> "none"]
Absent == [k |-> "absent"]
Err(cls, rule) == [k |-> "X", cls |-> cls, rule |-> rule]
IsErr(x) == x.k = "X"
Str(s) == [k |-> "str", v |-> s]
VS(s) == [k |-> "VS", v |-> s]
El(name, cap, t1, t2, cat, val) == [k |-> "E", name |-> name, cap |-> cap, t1 |-> t1, t2 |-> t2, cat |-> cat, val |-> val]
Call(el, caps, kids, imm) == [k |-> "C", el |-> el, caps |-> caps, kids |-> kids, imm |-> imm]
List(items) == [k |-> "L", items |-> items]

\* ---------------- lexer: white space ----------------
\* lexemes: [ty |-> "WORD"|"STRING"|"OPERATOR"|"WS"|"NONE", v |-> text]
\* the OPERATOR regexp swallows the white space around an operator; white space between two
\* non-operators is itself an OPERATOR token with the empty value (juxtaposition); the source is stripped
RECURSIVE LexWS(_, _)
LexWS(ls, prevOp) ==      \* prevOp: the previous emitted token was an OPERATOR (swallows following WS)
  IF ls = <<>> THEN <<>>
  ELSE LET h == Head(ls) t == Tail(ls) IN
       IF h.ty = "WS"
       THEN IF prevOp \/ t = <<>> \/ Head(t).ty \in {"OPERATOR", "WS"} THEN LexWS(t, prevOp)
            ELSE <<[ty |-> "OPERATOR", v |-> ""]>> \o LexWS(t, TRUE)
       ELSE <<h>> \o LexWS(t, h.ty = "OPERATOR")
RECURSIVE StripWS(_)
StripWS(ls) == IF ls # <<>> /\ Head(ls).ty = "WS" THEN StripWS(Tail(ls)) ELSE ls
Lex(ls) == LexWS(StripWS(ls), TRUE)

\* ---------------- OperatorPrecedenceTower ----------------
Inf == 1000000
Prio(v) ==   \* <<right_prio, left_prio>>
  CASE v = "," -> <<10, 9>>
    [] v \in {"", ">", ">>"} -> <<100, 99>>
    [] v \in {"=", "~"} -> <<120, 121>>
    [] v = ":" -> <<300, 301>>
    [] v = "as" -> <<350, 349>>
    [] v \in {"!", "!!"} -> <<375, 376>>
    [] v = "$" -> <<400, 401>>
    [] v \in {"(", "[", "{", "[["} -> <<200, 0>>
    [] v \in {")", "]", "}", "]]"} -> <<0, 501>>
OpVals == {",", "", ">", ">>", "=", "~", ":", "as", "!", "!!", "$", "(", "[", "{", "[[", ")", "]", "}", "]]"}
Known(t) == t = None \/ t.v \in OpVals \/ t.ty \in {"WORD", "STRING"}
Pr(t) == IF t.v \in OpVals THEN Prio(t.v) ELSE <<1000, 1001>>
RP(t) == IF t = None THEN -Inf ELSE Pr(t)[1]
LP(t) == IF t = None THEN -Inf ELSE Pr(t)[2]

\* ---------------- Parser.process / finalize ----------------
Tok(t) == [k |-> "tok", v |-> t.v, ty |-> t.ty]
Finalize(parts) == IF Len(parts) = 3 /\ parts[1] = None /\ parts[3] = None THEN parts[2]
                   ELSE [k |-> "node", parts |-> parts]
Pop(toks) == IF toks = <<>> THEN None ELSE Tok(Head(toks))
Rest(toks) == IF toks = <<>> THEN <<>> ELSE Tail(toks)
\* loop measure: tokens left + open handles; every iteration either consumes a token or closes a handle
Measure(s) == 2 * (Len(s.toks) + (IF s.right = None THEN 0 ELSE 1)) + Len(s.stack) + 1
RECURSIVE Loop(_)
Loop(s) ==
  IF s.left = None /\ s.right = None THEN s.middle
  ELSE IF ~Known(s.left) \/ ~Known(s.right) THEN Err("SyntaxError", "tower.resolve")
  ELSE LET order == RP(s.right) - LP(s.left) IN
    IF order > 0 THEN
      Loop([toks |-> Rest(s.toks), stack |-> Append(s.stack, s.current), current |-> <<s.middle, s.right>>,
            middle |-> None, left |-> s.right, right |-> Pop(s.toks)])
    ELSE IF order < 0 THEN
      IF s.stack = <<>> THEN Err("IndexError", "process.stack.pop")
      ELSE LET top == s.stack[Len(s.stack)] IN
           Loop([s EXCEPT !.middle = Finalize(Append(s.current, s.middle)), !.current = top,
                          !.stack = SubSeq(s.stack, 1, Len(s.stack) - 1), !.left = top[Len(top)]])
    ELSE Loop([toks |-> Rest(s.toks), stack |-> s.stack, current |-> s.current \o <<s.middle, s.right>>,
               middle |-> None, left |-> s.right, right |-> Pop(s.toks)])
Process(toks) == Loop([toks |-> Rest(toks), stack |-> <<>>, current |-> <<None, None>>, middle |-> None,
                       left |-> None, right |-> Pop(toks)])

\* ---------------- keys ----------------
KeyOf(parts) == [i \in DOMAIN parts |-> IF i % 2 = 1 THEN (IF parts[i] = None THEN "_" ELSE "X") ELSE parts[i].v]

\* ---------------- value_evaluate ----------------
RECURSIVE VEval(_)
VEval(ast) ==
  IF ast = None THEN Err("AssertionError", "value_evaluate.none")
  ELSE IF ast.k = "tok" THEN VS(ast.v)
  ELSE LET p == ast.parts  key == KeyOf(p) IN
    IF key = <<"X", ",", "X">> THEN
       LET a == VEval(p[1]) IN IF IsErr(a) THEN a ELSE
       LET b == VEval(p[3]) IN IF IsErr(b) THEN b ELSE
       [k |-> "VL", items |-> <<a>> \o (IF b.k = "VL" THEN b.items ELSE <<b>>)]
    ELSE IF key \in {<<"X", "(", "_", ")", "_">>, <<"X", "(", "X", ")", "_">>} THEN
       LET fn == VEval(p[1]) IN IF IsErr(fn) THEN fn ELSE
       LET args == IF p[3] = None THEN [k |-> "VL", items |-> <<>>] ELSE VEval(p[3]) IN IF IsErr(args) THEN args ELSE
       [k |-> "VC", fn |-> fn, args |-> IF args.k = "VL" THEN args.items ELSE <<args>>]
    ELSE IF key = <<"X", "=", "X">> THEN
       LET kk == VEval(p[1]) IN IF IsErr(kk) THEN kk ELSE
       IF kk.k # "VS" THEN Err("SyntaxError", "vmake_keyword.key") ELSE
       LET vv == VEval(p[3]) IN IF IsErr(vv) THEN vv ELSE [k |-> "VK", key |-> kk, val |-> vv]
    ELSE Err("SyntaxError", "value_evaluate.unrecognized")

\* ---------------- evaluate ----------------
GuaranteeCall(p) ==
  IF p.k = "E" THEN Call([p EXCEPT !.cap = None, !.name = IF p.name.k = "str" THEN VS(p.name.v) ELSE p.name, !.t1 = FALSE],
                         <<>>, <<>>, FALSE)
  ELSE IF p.k = "C" THEN p ELSE Err("SyntaxError", "guarantee_call")
Symbol(tok, ctx) == IF tok.v = "*" THEN El(None, None, FALSE, FALSE, None, Absent)
                    ELSE El(Str(tok.v), Str(tok.v), ctx = "root", FALSE, None, Absent)
RECURSIVE Eval(_, _)
Eval(ast, ctx) ==
  IF ast = None THEN Err("AssertionError", "evaluate.none")
  ELSE IF ast.k = "tok" THEN Symbol(ast, ctx)
  ELSE LET p == ast.parts  key == KeyOf(p) IN
    IF key = <<"_", "(", "X", ")", "_">> THEN Eval(p[3], ctx)
    ELSE IF key = <<"X", ">", "X">> THEN
       LET par == Eval(p[1], ctx) IN IF IsErr(par) THEN par ELSE
       LET ch == Eval(p[3], ctx) IN IF IsErr(ch) THEN ch ELSE
       LET pc == GuaranteeCall(par) IN IF IsErr(pc) THEN pc ELSE
       IF ch.k = "E" THEN [pc EXCEPT !.caps = Append(@, [ch EXCEPT !.t1 = TRUE])]
       ELSE IF ch.k = "C" THEN [pc EXCEPT !.kids = Append(@, [ch EXCEPT !.imm = FALSE])]
       ELSE Err("SyntaxError", "make_nested_imm.child")
    ELSE IF key \in {<<"_", ":", "X">>, <<"X", ":", "X">>} THEN
       LET el == IF p[1] = None THEN El(None, None, FALSE, FALSE, None, Absent) ELSE Eval(p[1], ctx) IN IF IsErr(el) THEN el ELSE
       LET tag == VEval(p[3]) IN IF IsErr(tag) THEN tag ELSE
       IF el.k = "E" THEN [el EXCEPT !.cat = tag] ELSE Err("SyntaxError", "make_class.not-element")
    ELSE IF key = <<"_", "!", "X">> THEN
       LET el == Eval(p[3], ctx) IN IF IsErr(el) THEN el ELSE
       IF el.k # "E" THEN Err("AssertionError", "make_focus") ELSE [el EXCEPT !.t1 = TRUE]
    ELSE IF key = <<"_", "!!", "X">> THEN
       LET el == Eval(p[3], ctx) IN IF IsErr(el) THEN el ELSE
       IF el.k # "E" THEN Err("AssertionError", "make_double_focus") ELSE [el EXCEPT !.t1 = FALSE, !.t2 = TRUE]
    ELSE IF key = <<"_", "$", "X">> THEN
       LET nm == Eval(p[3], ctx) IN IF IsErr(nm) THEN nm ELSE
       IF nm.k # "E" THEN Err("AttributeError", "make_dollar") ELSE El(None, nm.name, nm.t1, nm.t2, None, Absent)
    ELSE IF key \in {<<"X", "(", "_", ")", "_">>, <<"X", "(", "X", ")", "_">>} THEN
       LET fn == Eval(p[1], ctx) IN IF IsErr(fn) THEN fn ELSE
       LET names == IF p[3] = None THEN List(<<>>) ELSE Eval(p[3], "incall") IN IF IsErr(names) THEN names ELSE
       LET items == IF names.k = "L" THEN names.items ELSE <<names>>
           fc == GuaranteeCall(fn) IN IF IsErr(fc) THEN fc ELSE
       [fc EXCEPT !.caps = @ \o SelectSeq(items, LAMBDA x : x.k = "E"), !.kids = @ \o SelectSeq(items, LAMBDA x : x.k = "C")]
    ELSE IF key = <<"X", ",", "X">> THEN
       LET a == Eval(p[1], ctx) IN IF IsErr(a) THEN a ELSE
       LET b == Eval(p[3], ctx) IN IF IsErr(b) THEN b ELSE
       List(<<a>> \o (IF b.k = "L" THEN b.items ELSE <<b>>))
    ELSE IF key = <<"X", "as", "X">> THEN
       LET el == Eval(p[1], ctx) IN IF IsErr(el) THEN el ELSE
       LET nm == Eval(p[3], ctx) IN IF IsErr(nm) THEN nm ELSE
       IF nm.k # "E" THEN Err("AttributeError", "make_as.name")
       ELSE IF el.k = "E" THEN [el EXCEPT !.cap = nm.name, !.t1 = @ \/ nm.t1, !.t2 = @ \/ nm.t2]
       ELSE IF el.k = "C" THEN
            LET dflt == ~nm.t1 /\ ~nm.t2
                nc == El(Str("#value"), nm.name, IF dflt THEN ctx = "root" ELSE nm.t1, nm.t2, None, Absent)
            IN [el EXCEPT !.caps = Append(@, nc)]
       ELSE Err("SyntaxError", "make_as.list")
    ELSE IF key \in {<<"X", "=", "X">>, <<"X", "~", "X">>} THEN
       LET el == Eval(p[1], ctx) IN IF IsErr(el) THEN el ELSE
       LET v0 == VEval(p[3]) IN IF IsErr(v0) THEN v0 ELSE
       LET v == IF key[2] = "~" THEN [k |-> "VC", fn |-> [k |-> "MF"], args |-> <<v0>>] ELSE v0 IN
       IF el.k = "E" THEN [el EXCEPT !.val = v]
       ELSE IF el.k = "C" THEN [el EXCEPT !.caps = Append(@, El(Str("#value"), Str("#value"), FALSE, FALSE, None, v))]
       ELSE Err("SyntaxError", "make_equals.list")
    ELSE Err("SyntaxError", "evaluate.unrecognized")

\* parse(x) = evaluate(parser(x)); an empty parse is a syntax error (fix 0ced217: the sites that failed with
\* AssertionError / AttributeError / TypeError on sequences, calls and non-name keywords now raise SyntaxError)
Parse(toks) == LET tree == Process(toks) IN IF tree = None THEN Err("SyntaxError", "parse.empty")
               ELSE IF IsErr(tree) THEN tree ELSE Eval(tree, "root")
\* _select: a bare element becomes a call of the wildcard function
SelectOf(r) == IF IsErr(r) THEN r
               ELSE IF r.k = "E" THEN Call(El(None, None, FALSE, FALSE, None, Absent), <<[r EXCEPT !.t1 = TRUE]>>, <<>>, FALSE)
               ELSE IF r.k = "C" THEN r ELSE Err("AssertionError", "_select.list")

Admissible(r) == ~IsErr(r) \/ r.cls = "SyntaxError"

\* ---------------- derived attributes of a compiled selector (Element.focus/main, Call.focus/main)
\* the focus of a selector is the variable marked ! or standing after the last > : `main` is the first focused
\* element in the order captures-then-children at every level, `focus` says whether there is one
RECURSIVE DMain(_)
DMain(s) == IF s.k = "E" THEN (IF s.t1 THEN s ELSE None)
            ELSE IF s.k # "C" THEN None
            ELSE LET parts == s.caps \o s.kids
                     hits == {i \in DOMAIN parts : DMain(parts[i]) # None}
                 IN IF hits = {} THEN None ELSE DMain(parts[CHOOSE i \in hits : \A j \in hits : i <= j])
DFocus(s) == DMain(s) # None
=============================================================================
