--------------------------------- MODULE TraceThreads ---------------------------------
(* C08, real schedules: threads A, B (, C) each activate a probe on the shared function   *)
(*    f(x): a = x + 1; b = a * 2; c: @W = b + 1; d: int; return b                         *)
(* (A: 'f > a', B: 'f > b', C: 'f(a) > b'), call f(arg) and f(arg + 1), and deactivate,    *)
(* interleaved by the baton scheduler at attribute / subscript load-store granularity.     *)
(* ThreadsAbs: every thread observes exactly the events of its own two calls, each call    *)
(* returns what it returns sequentially, nothing raises, and when all have finished f      *)
(* runs its original code, no count is left over, no probe is registered.                  *)
EXTENDS Integers, Sequences, FiniteSets, TLC, Json, IOUtils, TLCExt
Runs == JsonDeserialize(IOEnv.TRACE_FILE)
VARIABLES rid, done
Ev(t, x) == CASE t \in {"A", "D", "E"} -> {<<"a", x + 1>>}          \* D, E: two threads with the very same selector text
              [] t = "B" -> {<<"b", (x + 1) * 2>>}
              [] t = "C" -> {<<"a", x + 1>>, <<"b", (x + 1) * 2>>}
              [] t = "T" -> {<<"v", (x + 1) * 2 + 1>>}            \* 'f > $v:@W' : c is the variable tagged W
Got(th) == [i \in DOMAIN th.events |-> {<<th.events[i][j][1], th.events[i][j][2]>> : j \in DOMAIN th.events[i]}]
Clauses(r) ==
  UNION { LET th == r.threads[t]  x == r.args[t]
              \* S supplies the declared-only variable d of f (f(x): ...; d: int; return b) and subscribes to nothing
              want == IF t = "S" THEN <<>> ELSE <<Ev(t, x), Ev(t, x + 1)>>
          IN (IF th.exc # "" THEN {<<"ThreadRaised", th.exc>>} ELSE {}) \cup
             (IF th.exc = "" /\ Got(th) # want
              THEN {<<IF Len(Got(th)) < 2 THEN "OwnEventLost" ELSE IF Len(Got(th)) > 2 THEN "ForeignOrDuplicateEvent" ELSE "WrongEvent", t>>} ELSE {}) \cup
             (IF th.exc = "" /\ th.rets # <<(x + 1) * 2, (x + 2) * 2>> THEN {<<"ReturnValue", t>>} ELSE {})
        : t \in DOMAIN r.threads }
  \cup (IF r.final.orig THEN {} ELSE {<<"Quiescent:code-not-orig", "">>})
  \cup (IF r.final.cnt = 0 THEN {} ELSE {<<"Quiescent:count-nonzero", "">>})
  \cup (IF r.final.caps = 0 THEN {} ELSE {<<"Quiescent:caps-nonzero", "">>})
  \cup (IF r.final.registered = 0 THEN {} ELSE {<<"Quiescent:probe-registered", "">>})
Init == rid \in 1..Len(Runs) /\ done = FALSE
Check == ~done /\ done' = TRUE /\ UNCHANGED rid
Spec == Init /\ [][Check]_<<rid, done>>
Report == done => \A c \in Clauses(Runs[rid]) : PrintT(<<"FAIL", Runs[rid].id, c[1], c[2]>>)
=============================================================================
