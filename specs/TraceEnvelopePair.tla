------------------------------ MODULE TraceEnvelopePair ------------------------------
(* Real wrapper-probe events of overlapping generator activations (env_driver, kind "pair")     *)
(* against the pairing rule: one behaviour per case, one step per recorded event               *)
(*     <<instance being driven, "begin" | "end", identity>>                                     *)
(*   begin : the identity is not the identity of any block that is still open                   *)
(*   end   : the identity is the one the SAME instance's begin event carried                    *)
(*   every instance that ran has exactly one begin, and one end once it is finished             *)
EXTENDS Naturals, Sequences, FiniteSets, TLC, Json, IOUtils, TLCExt
Cases == JsonDeserialize(IOEnv.TRACE_FILE)
VARIABLES tid, l, open, bad
Init == tid \in 1..Len(Cases) /\ l = 1 /\ open = <<>> /\ bad = ""
Ev == Cases[tid].events
OpenIds == {open[k][2] : k \in DOMAIN open}
Consume ==
  /\ l <= Len(Ev) /\ bad = ""
  /\ LET e == Ev[l] IN
     IF e[2] = "begin"
     THEN IF e[3] \in OpenIds \/ \E k \in DOMAIN open : open[k][1] = e[1]
          THEN bad' = "BeginIdentityInUse" /\ open' = open
          ELSE bad' = "" /\ open' = Append(open, <<e[1], e[3]>>)
     ELSE IF \E k \in DOMAIN open : open[k] = <<e[1], e[3]>>
          THEN bad' = "" /\ open' = SelectSeq(open, LAMBDA x : x # <<e[1], e[3]>>)
          ELSE bad' = "EndClosesAnotherBlock" /\ open' = open
  /\ l' = l + 1 /\ UNCHANGED tid
Spec == Init /\ [][Consume]_<<tid, l, open, bad>>
Finished == l > Len(Ev) \/ bad # ""
\* at the end: every instance that was started and finished has been opened and closed; suspended ones are still open
Verdict ==
  IF bad # "" THEN <<bad, l - 1>>
  ELSE IF {open[k][1] : k \in DOMAIN open} # {Cases[tid].still[k] : k \in DOMAIN Cases[tid].still} THEN <<"OpenBlocksAtEnd", Len(Ev)>>
  ELSE IF Cardinality({k \in DOMAIN Ev : Ev[k][2] = "begin"}) # Cases[tid].started THEN <<"BeginCount", Len(Ev)>>
  ELSE <<"ok", 0>>
Report == Finished => (Verdict[1] # "ok" => PrintT(<<"FAIL", Cases[tid].id, Verdict[1], Verdict[2]>>))
=============================================================================
