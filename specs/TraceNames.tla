--------------------------------- MODULE TraceNames ---------------------------------
(* C10: activation of probing('f > v') against Python's own scoping of v (symtable).     *)
(*   parameter / local / free variable / global or builtin read by the body              *)
(*        => accepted, recorded provenance argument / body / closure / external          *)
(*   name occurring nowhere in f's own scope, undocumented meta-variable, unresolvable   *)
(*   function name => SelectorError before anything runs, state unchanged                *)
(*   object that is not an instrumentable Python function => TypeError, state unchanged  *)
EXTENDS Integers, Sequences, TLC, Json, IOUtils, TLCExt
Cases == JsonDeserialize(IOEnv.TRACE_FILE)
VARIABLES cid, done
ExpectedOutcome(k) ==
  CASE k \in {"param", "local", "free", "global", "meta-ok"} -> "ok"
    [] k \in {"absent", "meta-bad", "nofunc"} -> "SelectorError"
    [] k = "nonfunc" -> "TypeError"
    [] OTHER -> "any"
ExpectedProv(k) ==
  CASE k = "param" -> "argument" [] k = "local" -> "body" [] k = "free" -> "closure" [] k = "global" -> "external" [] OTHER -> ""
Verdicts(c) ==
  (IF ExpectedOutcome(c.kind) \in {"any", c.outcome} THEN {}
   ELSE {IF ExpectedOutcome(c.kind) = "ok" THEN "WronglyRefused" ELSE IF c.outcome = "ok" THEN "NotRefused" ELSE "WrongError"}) \cup
  (IF c.outcome = "ok" /\ ExpectedProv(c.kind) # "" /\ c.prov # ExpectedProv(c.kind) THEN {"Provenance"} ELSE {}) \cup
  (IF c.clean THEN {} ELSE {"RefusalLeavesTrace"})
Init == cid \in 1..Len(Cases) /\ done = FALSE
Check == ~done /\ done' = TRUE /\ UNCHANGED cid
Spec == Init /\ [][Check]_<<cid, done>>
Report == done => \A v \in Verdicts(Cases[cid]) : PrintT(<<"FAIL", Cases[cid].id, v>>)
=============================================================================
