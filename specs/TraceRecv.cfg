SPECIFICATION Spec2
CONSTRAINT Report2
CHECK_DEADLOCK FALSE
