SPECIFICATION Spec
CONSTANTS Names = {"A", "B", "C"}  MaxLen = 4
INVARIANT ObjectFormIsSet
INVARIANT StringFormIsSet
INVARIANT MatchIsMembership
INVARIANT OrderIrrelevant
CHECK_DEADLOCK FALSE
