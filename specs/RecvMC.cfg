INIT InitX
NEXT Next
CONSTANT MaxCalls = 2
CONSTRAINT Collect
POSTCONDITION Report
CHECK_DEADLOCK FALSE
