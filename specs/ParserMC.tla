---------------------------------- MODULE ParserMC ----------------------------------
(* All token strings up to MaxLen over Alphabet through the parser transcription.       *)
(* Collects every inadmissible outcome class (C18 NoInternal) with a shortest witness,  *)
(* and checks that the parse loop's measure decreases (termination).                    *)
EXTENDS Parser
CONSTANTS MaxLen, Alphabet
VARIABLES toks
TokOf(v) == [v |-> v, ty |-> IF v \in OpVals \/ v = "!!!" THEN "OPERATOR" ELSE IF v = "&" THEN "NONE" ELSE IF v = "'s'" THEN "STRING" ELSE "WORD"]
Init == toks = <<>>
Next == Len(toks) < MaxLen /\ \E v \in Alphabet : toks' = Append(toks, TokOf(v))
Spec == Init /\ [][Next]_toks
Outcome == Parse(toks)
Sig == LET r == Outcome IN IF IsErr(r) /\ r.cls # "SyntaxError" THEN {r.cls \o "@" \o r.rule} ELSE {}
Collect == LET old == TLCGet(1)  new == {s \in Sig : s \notin DOMAIN old}
           IN IF new = {} THEN TRUE
              ELSE TLCSet(1, [s \in DOMAIN old \cup new |-> IF s \in DOMAIN old THEN old[s] ELSE [i \in DOMAIN toks |-> toks[i].v]])
InitX == Init /\ TLCSet(1, <<>>)
Report == \A s \in DOMAIN TLCGet(1) : PrintT(<<"SIGNATURE", s, TLCGet(1)[s]>>)
\* termination: the measure strictly decreases along the iterations of the parse loop
RECURSIVE Decreasing(_, _)
Decreasing(s, bound) ==
  IF s.left = None /\ s.right = None THEN TRUE
  ELSE IF ~Known(s.left) \/ ~Known(s.right) THEN TRUE
  ELSE IF Measure(s) >= bound THEN FALSE
  ELSE LET order == RP(s.right) - LP(s.left) IN
    IF order > 0 THEN Decreasing([toks |-> Rest(s.toks), stack |-> Append(s.stack, s.current), current |-> <<s.middle, s.right>>,
                                  middle |-> None, left |-> s.right, right |-> Pop(s.toks)], Measure(s))
    ELSE IF order < 0 THEN
      IF s.stack = <<>> THEN TRUE
      ELSE LET top == s.stack[Len(s.stack)] IN
           Decreasing([s EXCEPT !.middle = Finalize(Append(s.current, s.middle)), !.current = top,
                                !.stack = SubSeq(s.stack, 1, Len(s.stack) - 1), !.left = top[Len(top)]], Measure(s))
    ELSE Decreasing([toks |-> Rest(s.toks), stack |-> s.stack, current |-> s.current \o <<s.middle, s.right>>,
                     middle |-> None, left |-> s.right, right |-> Pop(s.toks)], Measure(s))
Terminates == Decreasing([toks |-> Rest(toks), stack |-> <<>>, current |-> <<None, None>>, middle |-> None,
                          left |-> None, right |-> Pop(toks)], 1000000)
=============================================================================
