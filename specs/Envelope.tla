---------------------------------- MODULE Envelope ----------------------------------
(* C06 (and the ordering facts C13 relies on), M level of the *envelope* ptera puts around one  *)
(* activation, as a state machine:                                                             *)
(*   transform.PteraTransformer.visit_FunctionDef   with proceed(self) as frame: <new body>     *)
(*                                                  prologue: externals (sorted), closure      *)
(*                                                  variables (sorted), parameters (signature   *)
(*                                                  order), then the body, then - since a77403d *)
(*                                                  - an instrumented `return None`             *)
(*   delimit                                        #enter first; try / except BaseException as  *)
(*                                                  #error: interact, raise / finally: #exit     *)
(*   visit_Return                                   return interact('#value', <value>)           *)
(*   visit_Yield                                    interact('#receive', yield interact('#yield', v)) *)
(* and of what Python does with a generator object (nothing runs before the first next; throw  *)
(* on an unstarted generator raises before the first line; close / drop raise GeneratorExit at *)
(* the yield; close on a finished or unstarted generator does nothing).                         *)
(*                                                                                              *)
(* One behaviour = one activation: cfg (chosen in Init, constant) holds the kind of function,   *)
(* the body script, the driver's actions and the instrumented set; every step is one primitive  *)
(* action of the rewritten code or of the driver.  `out` is the sequence of interactions        *)
(* delivered, `obs` what the driver sees.  A level: the clauses of C06 as invariants over       *)
(* (out, obs) and PyObs, Python's own outcome for the script (transparency of the envelope).    *)
(* EnvelopeMC.tla checks them over all scripts / drivers / instrumented sets up to a bound and   *)
(* exports every behaviour; TraceEnvelope.tla runs the machine next to real executions.         *)
EXTENDS Naturals, Sequences, FiniteSets, TLC

VARIABLES cfg, pc, ip, dp, k, pend, out, obs
vars == <<cfg, pc, ip, dp, k, pend, out, obs>>

Metas == {"#enter", "#exit", "#value", "#error", "#yield", "#receive"}
Instr(n) == "*" \in cfg.I \/ n \in cfg.I
Emit(n, v) == IF Instr(n) THEN Append(out, <<n, v>>) ELSE out
Val(tag, i) == tag \o ToString(i)

\* prologue order of visit_FunctionDef: #enter (delimit), externals sorted, free variables sorted, parameters
Prologue == <<"#enter">> \o cfg.ext \o cfg.free \o cfg.params
PVal(n) == IF n = "#enter" THEN "True" ELSE n \o "v"

Terminal(op) == op \in {"ret", "raise", "retfin"}
NoPend == [c |-> "none", v |-> ""]

\* ---------------------------------------------------------------- driver, before the body runs
Drive == IF dp <= Len(cfg.drive) THEN cfg.drive[dp] ELSE "drop"      \* a driver that stops driving drops the generator

Call ==         \* a plain function is called / a generator object is created: nothing of the body runs for a generator
  /\ pc = "init"
  /\ pc' = IF cfg.kind = "gen" THEN "created" ELSE "penter"
  /\ UNCHANGED <<cfg, ip, dp, k, pend, out, obs>>

FirstDrive ==
  /\ pc = "created"
  /\ dp' = dp + 1
  /\ CASE Drive \in {"next", "send"} -> pc' = "penter" /\ obs' = obs      \* send(None) is the only send allowed here
       [] Drive = "throw" -> pc' = "done" /\ obs' = Append(obs, <<"raised", Val("T", dp)>>)   \* raised before the first line
       [] OTHER -> pc' = "done" /\ obs' = Append(obs, <<"closed", "">>)   \* close / drop of an unstarted generator
  /\ UNCHANGED <<cfg, ip, k, pend, out>>

\* ---------------------------------------------------------------- the envelope
ProceedEnter ==          \* with proceed(self) as frame:
  /\ pc = "penter" /\ pc' = "pro" /\ k' = 1
  /\ UNCHANGED <<cfg, ip, dp, pend, out, obs>>

PrologueStep ==
  /\ pc = "pro"
  /\ IF k <= Len(Prologue)
     THEN out' = Emit(Prologue[k], PVal(Prologue[k])) /\ k' = k + 1 /\ pc' = pc
     ELSE out' = out /\ k' = k /\ pc' = "body"
  /\ UNCHANGED <<cfg, ip, dp, pend, obs>>

BodyStep ==
  /\ pc = "body"
  /\ IF ip > Len(cfg.script)
     THEN      \* falling off the end: the appended `return interact('#value', None)`
          /\ out' = Emit("#value", "None") /\ pend' = [c |-> "ret", v |-> "None"] /\ pc' = "fin" /\ ip' = ip /\ obs' = obs
     ELSE LET op == cfg.script[ip] IN
          CASE op = "bind" -> out' = Emit("a", Val("a", ip)) /\ ip' = ip + 1 /\ UNCHANGED <<pend, pc, obs>>
            [] op = "yield" -> /\ out' = Emit("#yield", Val("y", ip)) /\ pc' = "susp"
                               /\ obs' = Append(obs, <<"yielded", Val("y", ip)>>) /\ UNCHANGED <<pend, ip>>
            [] op = "ret" -> out' = Emit("#value", Val("r", ip)) /\ pend' = [c |-> "ret", v |-> Val("r", ip)] /\ pc' = "fin" /\ UNCHANGED <<ip, obs>>
            [] op = "raise" -> out' = out /\ pend' = [c |-> "exc", v |-> Val("E", ip)] /\ pc' = "err" /\ UNCHANGED <<ip, obs>>
            [] op = "retfin" ->      \* try: return r  finally: return f   - both returns are rewritten (KF-C06-superseded-return)
                 /\ out' = (IF Instr("#value") THEN out \o << <<"#value", Val("r", ip)>>, <<"#value", Val("f", ip)>> >> ELSE out)
                 /\ pend' = [c |-> "ret", v |-> Val("f", ip)] /\ pc' = "fin" /\ UNCHANGED <<ip, obs>>
  /\ UNCHANGED <<cfg, dp, k>>

Resume ==       \* the driver acts on the suspended generator
  /\ pc = "susp"
  /\ dp' = dp + 1
  /\ CASE Drive = "next" -> out' = Emit("#receive", "None") /\ pc' = "body" /\ ip' = ip + 1 /\ pend' = pend
       [] Drive = "send" -> out' = Emit("#receive", Val("s", dp)) /\ pc' = "body" /\ ip' = ip + 1 /\ pend' = pend
       [] Drive = "throw" -> out' = out /\ pc' = "err" /\ ip' = ip /\ pend' = [c |-> "exc", v |-> Val("T", dp)]
       [] OTHER -> out' = out /\ pc' = "err" /\ ip' = ip /\ pend' = [c |-> "exit", v |-> "GeneratorExit"]
  /\ UNCHANGED <<cfg, k, obs>>

ErrorHandler ==      \* except BaseException as #error: interact('#error', ...); raise
  /\ pc = "err" /\ pc' = "fin"
  /\ out' = Emit("#error", pend.v)
  /\ UNCHANGED <<cfg, ip, dp, k, pend, obs>>

Finally ==           \* finally: interact('#exit', ...)
  /\ pc = "fin" /\ pc' = "pexit"
  /\ out' = Emit("#exit", "True")
  /\ UNCHANGED <<cfg, ip, dp, k, pend, obs>>

ProceedExit ==       \* proceed.__exit__; the driver sees the outcome
  /\ pc = "pexit" /\ pc' = "done"
  /\ obs' = Append(obs, CASE pend.c = "ret" -> <<"returned", pend.v>>
                          [] pend.c = "exc" -> <<"raised", pend.v>>
                          [] OTHER -> <<"closed", "">>)           \* close() / the collector swallow GeneratorExit
  /\ UNCHANGED <<cfg, ip, dp, k, pend, out>>

Next == Call \/ FirstDrive \/ ProceedEnter \/ PrologueStep \/ BodyStep \/ Resume \/ ErrorHandler \/ Finally \/ ProceedExit

InitWith(c) == cfg = c /\ pc = "init" /\ ip = 1 /\ dp = 1 /\ k = 0 /\ pend = NoPend /\ out = <<>> /\ obs = <<>>

\* ---------------------------------------------------------------- A level
\* Python's own outcome of the script under the driver (no ptera): what the driver sees
\* returns [obs |-> what the driver sees, binds |-> values bound to a, in order, recv |-> values the yields evaluate to, in order]
RECURSIVE PyRun(_, _, _, _, _)
PyRun(script, drive, i, d, acc) ==
  LET fin(x) == [acc EXCEPT !.obs = Append(@, x)] IN
  IF i > Len(script) THEN fin(<<"returned", "None">>)
  ELSE CASE script[i] = "bind" -> PyRun(script, drive, i + 1, d, [acc EXCEPT !.binds = Append(@, Val("a", i))])
         [] script[i] = "ret" -> fin(<<"returned", Val("r", i)>>)
         [] script[i] = "retfin" -> fin(<<"returned", Val("f", i)>>)
         [] script[i] = "raise" -> fin(<<"raised", Val("E", i)>>)
         [] script[i] = "yield" ->
              LET a == IF d <= Len(drive) THEN drive[d] ELSE "drop"
                  acc2 == [acc EXCEPT !.obs = Append(@, <<"yielded", Val("y", i)>>)] IN
              CASE a = "next" -> PyRun(script, drive, i + 1, d + 1, [acc2 EXCEPT !.recv = Append(@, "None")])
                [] a = "send" -> PyRun(script, drive, i + 1, d + 1, [acc2 EXCEPT !.recv = Append(@, Val("s", d))])
                [] a = "throw" -> [acc2 EXCEPT !.obs = Append(@, <<"raised", Val("T", d)>>)]
                [] OTHER -> [acc2 EXCEPT !.obs = Append(@, <<"closed", "">>)]
Py0 == [obs |-> <<>>, binds |-> <<>>, recv |-> <<>>]
PyAll(c) ==
  IF c.kind = "fn" THEN PyRun(c.script, <<>>, 1, 1, Py0)
  ELSE LET a == IF Len(c.drive) >= 1 THEN c.drive[1] ELSE "drop" IN
       CASE a \in {"next", "send"} -> PyRun(c.script, c.drive, 1, 2, Py0)
         [] a = "throw" -> [Py0 EXCEPT !.obs = << <<"raised", "T1">> >>]
         [] OTHER -> [Py0 EXCEPT !.obs = << <<"closed", "">> >>]
PyObs(c) == PyAll(c).obs

Done == pc = "done"
Started == k > 0
Count(s, n) == Cardinality({i \in DOMAIN s : s[i][1] = n})
Pos(s, n) == CHOOSE i \in DOMAIN s : s[i][1] = n
Last(s) == s[Len(s)]
Only(s, ns) == SelectSeq(s, LAMBDA e : e[1] \in ns)

\* The clauses of C06 for a COMPLETED activation, as predicates of (configuration, delivered interactions o, driver's view b):
\* they are evaluated on the machine's own (out, obs) by EnvelopeMC and on what the real code delivered by TraceEnvelope.
In(c, n) == "*" \in c.I \/ n \in c.I
Ran(c, b) == ~(c.kind = "gen" /\ Len(b) = 1 /\ b[1][1] \in {"raised", "closed"} /\ b = PyObs(c) /\
               (Len(c.drive) = 0 \/ c.drive[1] \notin {"next", "send"}))       \* the body was entered at all
F_Transparent(c, o, b) == b = PyObs(c)
F_Nothing(c, o, b) == ~Ran(c, b) => o = <<>>
F_Enter(c, o, b) == (Ran(c, b) /\ In(c, "#enter")) => (o # <<>> /\ o[1][1] = "#enter" /\ Count(o, "#enter") = 1)
F_Exit(c, o, b) == (Ran(c, b) /\ In(c, "#exit")) => (o # <<>> /\ Last(o)[1] = "#exit" /\ Count(o, "#exit") = 1)
F_Value(c, o, b) == (Ran(c, b) /\ In(c, "#value")) =>
                       IF Last(b)[1] = "returned" THEN Count(o, "#value") = 1 /\ o[Pos(o, "#value")][2] = Last(b)[2]
                       ELSE Count(o, "#value") = 0
F_Error(c, o, b) == (Ran(c, b) /\ In(c, "#error")) =>
                       IF Last(b)[1] = "raised" THEN Count(o, "#error") = 1 /\ o[Pos(o, "#error")][2] = Last(b)[2]
                       ELSE IF Last(b)[1] = "closed" THEN Count(o, "#error") = 1 /\ o[Pos(o, "#error")][2] = "GeneratorExit"
                       ELSE Count(o, "#error") = 0
\* every yield event carries the value the driver got; yields and receives alternate; a receive is missing only for a last
\* yield that was answered by throw / close / drop
F_Yield(c, o, b) ==
  LET ys == Only(b, {"yielded"})
      yo == Only(o, {"#yield"})
      yr == Only(o, {"#yield", "#receive"}) IN
  /\ In(c, "#yield") => (Len(yo) = Len(ys) /\ \A i \in DOMAIN ys : yo[i][2] = ys[i][2])
  /\ (In(c, "#yield") /\ In(c, "#receive")) =>
        /\ \A i \in DOMAIN yr : yr[i][1] = (IF i % 2 = 1 THEN "#yield" ELSE "#receive")
        /\ Count(o, "#yield") - Count(o, "#receive") = (IF ys # <<>> /\ Last(b)[1] \in {"closed"} THEN 1
                                                         ELSE IF ys # <<>> /\ Last(b)[1] = "raised" /\ Last(b)[2] \in {Val("T", d) : d \in DOMAIN c.drive} THEN 1 ELSE 0)
\* the entry variables (globals read, closure variables, parameters): one event each, with the value, after #enter and before
\* every event of the body (their mutual order is not part of the property)
F_Prologue(c, o, b) ==
  Ran(c, b) => LET entry == {n \in {(c.ext \o c.free \o c.params)[i] : i \in DOMAIN (c.ext \o c.free \o c.params)} : In(c, n)}
                   first == IF In(c, "#enter") THEN 1 ELSE 0 IN
               /\ Len(o) >= first + Cardinality(entry)
               /\ {o[i][1] : i \in (first + 1)..(first + Cardinality(entry))} = entry
               /\ \A i \in DOMAIN o : o[i][1] \in entry => (Count(o, o[i][1]) = 1 /\ o[i][2] = o[i][1] \o "v")
\* the variable of the body: one event per binding executed, in order, with the value; receive events carry what was sent
F_Body(c, o, b) ==
  /\ In(c, "a") => [i \in DOMAIN Only(o, {"a"}) |-> Only(o, {"a"})[i][2]] = PyAll(c).binds
  /\ In(c, "#receive") => [i \in DOMAIN Only(o, {"#receive"}) |-> Only(o, {"#receive"})[i][2]] = PyAll(c).recv
\* only names that were asked for are delivered
F_Asked(c, o, b) == \A i \in DOMAIN o : In(c, o[i][1])

FinalSignature(c, o, b) ==
  LET hasfin == \E i \in DOMAIN c.script : c.script[i] = "retfin" IN
  (IF ~F_Value(c, o, b) THEN {IF hasfin THEN "SupersededReturnValue" ELSE "ValueClause"} ELSE {})
  \cup (IF ~F_Transparent(c, o, b) THEN {"Transparent"} ELSE {})
  \cup (IF ~F_Nothing(c, o, b) THEN {"NothingBeforeStart"} ELSE {})
  \cup (IF ~F_Enter(c, o, b) THEN {"EnterClause"} ELSE {})
  \cup (IF ~F_Exit(c, o, b) THEN {"ExitClause"} ELSE {})
  \cup (IF ~F_Error(c, o, b) THEN {"ErrorClause"} ELSE {})
  \cup (IF ~F_Yield(c, o, b) THEN {"YieldClause"} ELSE {})
  \cup (IF ~F_Prologue(c, o, b) THEN {"PrologueClause"} ELSE {})
  \cup (IF ~F_Body(c, o, b) THEN {"BodyClause"} ELSE {})
  \cup (IF ~F_Asked(c, o, b) THEN {"NotAskedFor"} ELSE {})

\* state invariants of the machine (every reachable state, not only the last)
NothingBeforeStart == ~Started => out = <<>>
EnterWhenStarted == (Instr("#enter") /\ pc \in {"body", "susp", "err", "fin", "pexit", "done"} /\ Started) => (out[1][1] = "#enter" /\ Count(out, "#enter") = 1)
NoExitBeforeEnd == pc \in {"init", "created", "penter", "pro", "body", "susp", "err", "fin"} => Count(out, "#exit") = 0
SilentAfterExit == \A i \in DOMAIN out : out[i][1] = "#exit" => i = Len(out)
BalancedWhileRunning == (pc = "body" /\ Instr("#yield") /\ Instr("#receive")) => Count(out, "#yield") = Count(out, "#receive")
SuspendedOwesReceive == (pc = "susp" /\ Instr("#yield") /\ Instr("#receive")) => Count(out, "#yield") = Count(out, "#receive") + 1
StartedAgrees == Done => (Started <=> Ran(cfg, obs))
=============================================================================
