--------------------------------- MODULE TraceStaged ---------------------------------
(* C09, the caller's side: an instrumented function `outer` starts a generator and advances it  *)
(* step by step while its own variable `stage` goes (unassigned), 1, 2, 3 (lifeworld.py); the      *)
(* generators are made before the first assignment; optionally one more level `top >` above.       *)
(*   'outer(stage) > gen > a'    : every step of the generator reports the value of a it binds     *)
(*                                 together with the caller's stage AT THAT STEP                  *)
(*   'outer(stage=K) > gen > a'  : exactly the steps made while stage = K are reported           *)
(* The i-th step of gen binds a = g(i - 1) = 99 + i.  A case lists stage and generator of every step. *)
EXTENDS Integers, Sequences, FiniteSets, TLC, Json, IOUtils, TLCExt
Cases == JsonDeserialize(IOEnv.TRACE_FILE)
VARIABLES cid, done
\* c.stages[i] = <<stage, generator>> of the i-th step; one or two generators, both created before the first step
Own(c, i) == Cardinality({j \in 1..i : c.stages[j][2] = c.stages[i][2]})       \* the how-manieth step of its generator
AVal(c, i) == 99 + Own(c, i)
Expected(c) ==
  IF c.form = "capture" THEN [i \in DOMAIN c.stages |-> <<c.stages[i][1], AVal(c, i)>>]
  \* a step made before the caller has assigned `stage` (stage 0) carries no stage, and a condition on a variable that is not
  \* captured yet does not apply (C12)
  ELSE LET idx == SelectSeq([i \in DOMAIN c.stages |-> i], LAMBDA i : c.stages[i][1] \in {0, c.k})
       IN [j \in DOMAIN idx |-> <<c.stages[idx[j]][1], AVal(c, idx[j])>>]
Verdicts(c) ==
  (IF c.outcome # "ok" THEN {"Outcome"} ELSE {}) \cup
  (IF c.outcome = "ok" /\ c.events # Expected(c)
   THEN {IF Len(c.events) # Len(Expected(c)) THEN "StepsReported" ELSE "CallerStateAtStep"} ELSE {})
Init == cid \in 1..Len(Cases) /\ done = FALSE
Check == ~done /\ done' = TRUE /\ UNCHANGED cid
Spec == Init /\ [][Check]_<<cid, done>>
Report == done => \A v \in Verdicts(Cases[cid]) : PrintT(<<"FAIL", Cases[cid].id, v>>)
=============================================================================
