SPECIFICATION Spec
INVARIANT LawHolds
INVARIANT OneFocus
INVARIANT InnerFocus
CHECK_DEADLOCK FALSE
