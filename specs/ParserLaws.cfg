SPECIFICATION Spec
INVARIANT LawHolds
INVARIANT OneFocus
CHECK_DEADLOCK FALSE
