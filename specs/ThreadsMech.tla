--------------------------------- MODULE ThreadsMech ---------------------------------
(* C08.  M level: activation / call / deactivation of probes by several threads on one   *)
(* shared function f, at attribute load/store granularity:                                *)
(*   _tooler: hasattr / create stack object / store attribute                             *)
(*   StackedTransforms.push / pop: load then store of instrument_count and of the         *)
(*        capture count of the thread's variable                                          *)
(*   StackedTransforms.get + TransformSet.transform_for: variant choice; a freshly built   *)
(*        variant's self reference names the helper function until _apply stores f         *)
(*   SyncedStackedTransforms._apply: store of fn.__code__ and of the self reference        *)
(*   the call: reads fn.__code__, then proceed(<self reference>) and the interaction       *)
(* Constants select the mechanism: Locked = tooling runs under one lock, PublishFirst =    *)
(* the self reference is stored before fn.__code__ (both: fix 6b966b1; the pinned tree     *)
(* had both FALSE).                                                                        *)
(* A level (ThreadsAbs clauses, evaluated on the mechanism's state): each thread receives  *)
(* exactly the event of its own call; when all threads are done f runs its original code   *)
(* and no count is left over.                                                              *)
EXTENDS Integers, Sequences, FiniteSets, TLC
CONSTANTS Threads, Locked, PublishFirst
V(t) == t          \* each thread probes its own variable of f, named like the thread
VARIABLES lock,        \* "none" or the thread holding the tooling lock
          stackAttr,   \* fn.__ptera_stack__ : 0 = absent, else object id
          objs,        \* stack objects: seq of [count, caps: var -> int]
          tcache,      \* per stack object: set of capture sets already transformed
          code,        \* fn.__code__ : [orig: BOOL, vars: set]
          selfOK,      \* capture sets whose variant's self-reference global names f itself
          pc, st, r, variant, active, recv, hist
vars == <<lock, stackAttr, objs, tcache, code, selfOK, pc, st, r, variant, active, recv, hist>>
Orig == [orig |-> TRUE, vars |-> {}]
Init == /\ lock = "none" /\ stackAttr = 0 /\ objs = <<>> /\ tcache = <<>> /\ code = Orig /\ selfOK = {}
        /\ pc = [t \in Threads |-> "tool_hasattr"] /\ st = [t \in Threads |-> 0] /\ r = [t \in Threads |-> 0]
        /\ variant = [t \in Threads |-> Orig] /\ active = [t \in Threads |-> FALSE]
        /\ recv = [t \in Threads |-> 0] /\ hist = <<>>
Goto(t, l) == pc' = [pc EXCEPT ![t] = l]
Capset(o) == {v \in DOMAIN objs[o].caps : objs[o].caps[v] > 0}
Entry == {"tool_hasattr", "untool_load"}          \* _tooler / _untooler acquire the lock here
Exit == {"apply_s2_A", "apply_s2_D"}             \* ... and release it when _apply returns
StoreCode(t) == code' = variant[t] /\ UNCHANGED selfOK
StoreSelf(t) == selfOK' = (IF variant[t].orig THEN selfOK ELSE selfOK \cup {variant[t].vars}) /\ UNCHANGED code
Step(t) ==
  /\ hist' = Append(hist, <<t, pc[t]>>)
  /\ IF ~Locked THEN UNCHANGED lock
     ELSE IF pc[t] \in Entry THEN lock = "none" /\ lock' = t
     ELSE IF pc[t] \in Exit THEN lock' = "none"
     ELSE UNCHANGED lock
  /\ CASE pc[t] = "tool_hasattr" ->      \* _tooler: hasattr(fn, "__ptera_stack__")
            /\ IF stackAttr # 0 THEN Goto(t, "tool_load") ELSE Goto(t, "tool_create")
            /\ UNCHANGED <<stackAttr, objs, tcache, code, selfOK, st, r, variant, active, recv>>
       [] pc[t] = "tool_load" ->
            /\ st' = [st EXCEPT ![t] = stackAttr] /\ Goto(t, "push_load_count")
            /\ UNCHANGED <<stackAttr, objs, tcache, code, selfOK, r, variant, active, recv>>
       [] pc[t] = "tool_create" ->       \* SyncedStackedTransforms(fn), then store the attribute
            /\ objs' = Append(objs, [count |-> 0, caps |-> <<>>]) /\ tcache' = Append(tcache, {})
            /\ st' = [st EXCEPT ![t] = Len(objs) + 1] /\ Goto(t, "tool_store")
            /\ UNCHANGED <<stackAttr, code, selfOK, r, variant, active, recv>>
       [] pc[t] = "tool_store" ->
            /\ stackAttr' = st[t] /\ Goto(t, "push_load_count")
            /\ UNCHANGED <<objs, tcache, code, selfOK, st, r, variant, active, recv>>
       [] pc[t] \in {"push_load_count", "pop_load_count"} ->
            /\ r' = [r EXCEPT ![t] = objs[st[t]].count]
            /\ Goto(t, IF pc[t] = "push_load_count" THEN "push_store_count" ELSE "pop_store_count")
            /\ UNCHANGED <<stackAttr, objs, tcache, code, selfOK, st, variant, active, recv>>
       [] pc[t] \in {"push_store_count", "pop_store_count"} ->
            /\ objs' = [objs EXCEPT ![st[t]].count = r[t] + (IF pc[t] = "push_store_count" THEN 1 ELSE -1)]
            /\ Goto(t, IF pc[t] = "push_store_count" THEN "push_load_cap" ELSE "pop_load_cap")
            /\ UNCHANGED <<stackAttr, tcache, code, selfOK, st, r, variant, active, recv>>
       [] pc[t] \in {"push_load_cap", "pop_load_cap"} ->
            /\ r' = [r EXCEPT ![t] = IF V(t) \in DOMAIN objs[st[t]].caps THEN objs[st[t]].caps[V(t)] ELSE 0]
            /\ Goto(t, IF pc[t] = "push_load_cap" THEN "push_store_cap" ELSE "pop_store_cap")
            /\ UNCHANGED <<stackAttr, objs, tcache, code, selfOK, st, variant, active, recv>>
       [] pc[t] \in {"push_store_cap", "pop_store_cap"} ->
            /\ objs' = [objs EXCEPT ![st[t]].caps = (V(t) :> (r[t] + (IF pc[t] = "push_store_cap" THEN 1 ELSE -1))) @@ @]
            /\ Goto(t, IF pc[t] = "push_store_cap" THEN "apply_get_A" ELSE "apply_get_D")
            /\ UNCHANGED <<stackAttr, tcache, code, selfOK, st, r, variant, active, recv>>
       [] pc[t] \in {"apply_get_A", "apply_get_D"} ->     \* get() + transform_for(): a new variant's self reference is the helper
            /\ LET o == st[t]
                   v == IF objs[o].count = 0 THEN Orig ELSE [orig |-> FALSE, vars |-> Capset(o)]
                   fresh == ~v.orig /\ v.vars \notin tcache[o]
               IN /\ variant' = [variant EXCEPT ![t] = v]
                  /\ tcache' = IF fresh THEN [tcache EXCEPT ![o] = @ \cup {v.vars}] ELSE tcache
                  /\ selfOK' = IF fresh THEN selfOK \ {v.vars} ELSE selfOK
            /\ Goto(t, IF pc[t] = "apply_get_A" THEN "apply_s1_A" ELSE "apply_s1_D")
            /\ UNCHANGED <<stackAttr, objs, code, st, r, active, recv>>
       [] pc[t] \in {"apply_s1_A", "apply_s1_D"} ->       \* first store of _apply
            /\ IF PublishFirst /\ ~variant[t].orig THEN StoreSelf(t) ELSE StoreCode(t)
            /\ Goto(t, IF pc[t] = "apply_s1_A" THEN "apply_s2_A" ELSE "apply_s2_D")
            /\ UNCHANGED <<stackAttr, objs, tcache, st, r, variant, active, recv>>
       [] pc[t] = "apply_s2_A" ->                          \* second store; then the overlay is entered (context-local)
            /\ IF PublishFirst /\ ~variant[t].orig THEN StoreCode(t) ELSE StoreSelf(t)
            /\ active' = [active EXCEPT ![t] = TRUE] /\ Goto(t, "call_load_code")
            /\ UNCHANGED <<stackAttr, objs, tcache, st, r, variant, recv>>
       [] pc[t] = "call_load_code" ->                      \* the call reads fn.__code__ ...
            /\ variant' = [variant EXCEPT ![t] = code] /\ Goto(t, "call_proceed")
            /\ UNCHANGED <<stackAttr, objs, tcache, code, selfOK, st, r, active, recv>>
       [] pc[t] = "call_proceed" ->                        \* ... then proceed(glb[token]) and the interaction
            /\ recv' = [recv EXCEPT ![t] = @ + IF ~variant[t].orig /\ V(t) \in variant[t].vars /\ variant[t].vars \in selfOK /\ active[t] THEN 1 ELSE 0]
            /\ active' = [active EXCEPT ![t] = FALSE]      \* overlay exit (context-local)
            /\ Goto(t, "untool_load")
            /\ UNCHANGED <<stackAttr, objs, tcache, code, selfOK, st, r, variant>>
       [] pc[t] = "untool_load" ->                         \* _untooler: st = fn.__ptera_stack__
            /\ st' = [st EXCEPT ![t] = stackAttr] /\ Goto(t, "pop_load_count")
            /\ UNCHANGED <<stackAttr, objs, tcache, code, selfOK, r, variant, active, recv>>
       [] pc[t] = "apply_s2_D" ->
            /\ IF PublishFirst /\ ~variant[t].orig THEN StoreCode(t) ELSE StoreSelf(t)
            /\ Goto(t, "done")
            /\ UNCHANGED <<stackAttr, objs, tcache, st, r, variant, active, recv>>
Next == \E t \in Threads : pc[t] # "done" /\ Step(t)
Spec == Init /\ [][Next]_vars
\* ---------------- A-level clauses (ThreadsAbs)
AllDone == \A t \in Threads : pc[t] = "done"
AfterCall == {"untool_load", "pop_load_count", "pop_store_count", "pop_load_cap", "pop_store_cap", "apply_get_D", "apply_s1_D", "apply_s2_D", "done"}
Viol ==
  (IF \E t \in Threads : pc[t] \in AfterCall /\ recv[t] # 1 THEN {"OwnEventsExactlyOnce"} ELSE {}) \cup
  (IF AllDone /\ ~code.orig THEN {"Quiescent:code-not-orig"} ELSE {}) \cup
  (IF AllDone /\ stackAttr # 0 /\ objs[stackAttr].count # 0 THEN {"Quiescent:count-nonzero"} ELSE {}) \cup
  (IF AllDone /\ stackAttr # 0 /\ \E v \in DOMAIN objs[stackAttr].caps : objs[stackAttr].caps[v] # 0 THEN {"Quiescent:caps-nonzero"} ELSE {})
NoViolation == Viol = {}
Preemptions(h) == Cardinality({i \in 1..(Len(h) - 1) : h[i][1] # h[i + 1][1] /\ h[i][2] \notin {"apply_s2_D"}})
Collect ==
  LET old == TLCGet(1)
      new == {s \in Viol : s \notin DOMAIN old}
  IN IF new = {} THEN TRUE ELSE TLCSet(1, [s \in DOMAIN old \cup new |-> IF s \in DOMAIN old THEN old[s] ELSE hist])
InitX == Init /\ TLCSet(1, <<>>)
Report == \A s \in DOMAIN TLCGet(1) : PrintT(<<"SIGNATURE", s, "preemptions", Preemptions(TLCGet(1)[s]), "len", Len(TLCGet(1)[s])>>)
View == <<lock, stackAttr, objs, tcache, code, selfOK, pc, st, r, variant, active, recv>>
=============================================================================
