----------------------------------- MODULE GenMC -----------------------------------
(* GenMech |= A-level clauses over all histories up to MaxOps operations; collects each  *)
(* violation signature with a shortest witness and exports every complete history.       *)
EXTENDS GenMech
CONSTANTS MaxOps, UseGens, UseOvls, UseDrive
VARIABLES m, a, extra1, lost, hist, dlen
vars == <<m, a, extra1, lost, hist, dlen>>
Init == m = MInit /\ a = AInit /\ extra1 = 0 /\ lost = 0 /\ hist = <<>> /\ dlen = 0
H(op) == hist' = Append(hist, op)
\* o3 ('drive > g > a') is opened before drive is called (an overlay entered inside a running function cannot see it)
Enter(o) == /\ m.ost[o] = "new" /\ (o = "o3" => ~a.indrive) /\ H(<<"enter", o>>) /\ m' = MEnter(m, o)
            /\ a' = [a EXCEPT !.open = Append(@, o)] /\ UNCHANGED <<extra1, lost, dlen>>
\* with-blocks: only the innermost open overlay can be left, and not across the boundary of the running drive call
Exit(o) == /\ a.open # <<>> /\ a.open[Len(a.open)] = o /\ (a.indrive => Len(a.open) > dlen) /\ H(<<"exit", o>>) /\ m' = MExit(m, o)
           /\ a' = [a EXCEPT !.open = SubSeq(@, 1, Len(@) - 1)] /\ UNCHANGED <<extra1, lost, dlen>>
\* the rest of the history (until undrive) runs inside one call of the instrumented function drive
Drive == /\ ~a.indrive /\ ~(\E i \in DOMAIN hist : hist[i][1] = "drive") /\ H(<<"drive", "">>) /\ m' = MDrive(m)
         /\ a' = [a EXCEPT !.indrive = TRUE, !.o3d = IsOpen(a, "o3")] /\ dlen' = Len(a.open) /\ UNCHANGED <<extra1, lost>>
Undrive == /\ a.indrive /\ Len(a.open) = dlen /\ H(<<"undrive", "">>) /\ m' = MUndrive(m)
           /\ a' = [a EXCEPT !.indrive = FALSE] /\ UNCHANGED <<extra1, lost, dlen>>
New(g) == /\ m.gst[g] = "none" /\ H(<<"new", g>>) /\ m' = MNew(m, g) /\ a' = [a EXCEPT !.gst[g] = "new"] /\ UNCHANGED <<extra1, lost, dlen>>
Nxt(g) == /\ m.gst[g] \in {"new", "s1", "s2"} /\ H(<<"next", g>>)
          /\ LET r == MNext(m, g) IN
             /\ m' = r.m
             /\ extra1' = extra1 + (IF \E o \in Ovls : r.f[o] > ANextFires(a, g, o) THEN 1 ELSE 0)
             /\ lost' = lost + (IF \E o \in Ovls : r.f[o] < ANextFires(a, g, o) THEN 1 ELSE 0)
          /\ a' = [a EXCEPT !.gst[g] = ANextState(@)] /\ UNCHANGED dlen
End(g, how) == /\ m.gst[g] \in {"new", "s1", "s2"} /\ H(<<how, g>>) /\ m' = MEnd(m, g)
               /\ a' = [a EXCEPT !.gst[g] = "done"] /\ UNCHANGED <<extra1, lost, dlen>>
CallG == /\ H(<<"callg", Len(hist) + 1>>)
         /\ extra1' = extra1 + (IF \E o \in Ovls : Fires(m.cur, o) > ACallFires(a, o) THEN 1 ELSE 0)
         /\ lost' = lost + (IF \E o \in Ovls : Fires(m.cur, o) < ACallFires(a, o) THEN 1 ELSE 0)
         /\ UNCHANGED <<m, a, dlen>>
Next == \/ \E o \in UseOvls : Enter(o) \/ Exit(o)
        \/ (UseDrive /\ (Drive \/ Undrive))
        \/ \E g \in UseGens : New(g) \/ Nxt(g) \/ End(g, "close") \/ End(g, "drop")
        \/ CallG
Spec == Init /\ [][Next]_vars
Viol ==
  (IF extra1 > 0 THEN {"DriverCallMatchedUnderSuspendedGen"} ELSE {}) \cup
  (IF lost > 0 THEN {"EventLost"} ELSE {}) \cup
  (IF Count(m.cur, "K1") > 0 /\ \A g \in Gens : m.gst[g] \notin {"s1", "s2"} THEN {"ChildPairWithoutLiveGenerator"} ELSE {}) \cup
  (IF m.cur # ACur(a) THEN
      (IF \E o \in Ovls : ~IsOpen(a, o) /\ Count(m.cur, Root(o)) > 0 THEN {"HandlersOfEndedOverlayInstalled"} ELSE {}) \cup
      (IF \E o \in Ovls : IsOpen(a, o) /\ Count(m.cur, Root(o)) = 0 THEN {"OpenOverlayNotInstalled"} ELSE {}) \cup
      (IF Count(m.cur, "K1") > 0 THEN {"DriverInheritsGenCollection"} ELSE {})
   ELSE {})
Collect == /\ LET old == TLCGet(1)  new == {s \in Viol : s \notin DOMAIN old}
              IN IF new = {} THEN TRUE ELSE TLCSet(1, [s \in DOMAIN old \cup new |-> IF s \in DOMAIN old THEN old[s] ELSE hist])
           /\ (Len(hist) = MaxOps => PrintT(<<"HIST", hist>>))
           /\ Len(hist) < MaxOps
InitX == Init /\ TLCSet(1, <<>>)
Report == \A s \in DOMAIN TLCGet(1) : PrintT(<<"SIGNATURE", s, TLCGet(1)[s]>>)
=============================================================================
