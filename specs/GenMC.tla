----------------------------------- MODULE GenMC -----------------------------------
(* GenMech |= A-level clauses over all histories up to MaxOps operations; collects each  *)
(* violation signature with a shortest witness and exports every complete history.       *)
EXTENDS GenMech
CONSTANTS MaxOps, UseGens
VARIABLES m, a, extra1, lost, hist
vars == <<m, a, extra1, lost, hist>>
Init == m = MInit /\ a = AInit /\ extra1 = 0 /\ lost = 0 /\ hist = <<>>
H(op) == hist' = Append(hist, op)
Enter(o) == /\ m.ost[o] = "new" /\ H(<<"enter", o>>) /\ m' = MEnter(m, o)
            /\ a' = [a EXCEPT !.open = Append(@, o)] /\ UNCHANGED <<extra1, lost>>
\* with-blocks: only the innermost open overlay can be left
Exit(o) == /\ a.open # <<>> /\ a.open[Len(a.open)] = o /\ H(<<"exit", o>>) /\ m' = MExit(m, o)
           /\ a' = [a EXCEPT !.open = SubSeq(@, 1, Len(@) - 1)] /\ UNCHANGED <<extra1, lost>>
New(g) == /\ m.gst[g] = "none" /\ H(<<"new", g>>) /\ m' = MNew(m, g) /\ a' = [a EXCEPT !.gst[g] = "new"] /\ UNCHANGED <<extra1, lost>>
Nxt(g) == /\ m.gst[g] \in {"new", "s1", "s2"} /\ H(<<"next", g>>)
          /\ LET r == MNext(m, g) IN
             /\ m' = r.m
             /\ extra1' = extra1 + (IF r.f1 > ANextFires(a, g, "o1") \/ r.f2 > ANextFires(a, g, "o2") THEN 1 ELSE 0)
             /\ lost' = lost + (IF r.f1 < ANextFires(a, g, "o1") \/ r.f2 < ANextFires(a, g, "o2") THEN 1 ELSE 0)
          /\ a' = [a EXCEPT !.gst[g] = ANextState(@)]
End(g, how) == /\ m.gst[g] \in {"new", "s1", "s2"} /\ H(<<how, g>>) /\ m' = MEnd(m, g)
               /\ a' = [a EXCEPT !.gst[g] = "done"] /\ UNCHANGED <<extra1, lost>>
CallG == /\ H(<<"callg", Len(hist) + 1>>)
         /\ extra1' = extra1 + (IF FiresO1(m.cur) > 0 \/ FiresO2(m.cur) > ACallFires(a, "o2") THEN 1 ELSE 0)
         /\ lost' = lost + (IF FiresO2(m.cur) < ACallFires(a, "o2") THEN 1 ELSE 0)
         /\ UNCHANGED <<m, a>>
Next == \/ \E o \in Ovls : Enter(o) \/ Exit(o)
        \/ \E g \in UseGens : New(g) \/ Nxt(g) \/ End(g, "close") \/ End(g, "drop")
        \/ CallG
Spec == Init /\ [][Next]_vars
Viol ==
  (IF extra1 > 0 THEN {"DriverCallMatchedUnderSuspendedGen"} ELSE {}) \cup
  (IF lost > 0 THEN {"EventLost"} ELSE {}) \cup
  (IF Count(m.cur, "K1") > 0 /\ \A g \in Gens : m.gst[g] \notin {"s1", "s2"} THEN {"ChildPairWithoutLiveGenerator"} ELSE {}) \cup
  (IF m.cur # ACur(a) THEN
      (IF \E o \in Ovls : ~IsOpen(a, o) /\ Count(m.cur, Root(o)) > 0 THEN {"HandlersOfEndedOverlayInstalled"} ELSE {}) \cup
      (IF \E o \in Ovls : IsOpen(a, o) /\ Count(m.cur, Root(o)) = 0 THEN {"OpenOverlayNotInstalled"} ELSE {}) \cup
      (IF Count(m.cur, "K1") > 0 THEN {"DriverInheritsGenCollection"} ELSE {})
   ELSE {})
Collect == /\ LET old == TLCGet(1)  new == {s \in Viol : s \notin DOMAIN old}
              IN IF new = {} THEN TRUE ELSE TLCSet(1, [s \in DOMAIN old \cup new |-> IF s \in DOMAIN old THEN old[s] ELSE hist])
           /\ (Len(hist) = MaxOps => PrintT(<<"HIST", hist>>))
           /\ Len(hist) < MaxOps
InitX == Init /\ TLCSet(1, <<>>)
Report == \A s \in DOMAIN TLCGet(1) : PrintT(<<"SIGNATURE", s, TLCGet(1)[s]>>)
=============================================================================
