INIT InitX
NEXT Next
CONSTANTS MaxOps = 6  UndoOnRefusal = TRUE  Universe = {"p1", "p3", "p4", "bad"}
CONSTRAINT Collect
POSTCONDITION Report
CHECK_DEADLOCK FALSE
