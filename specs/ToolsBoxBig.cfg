SPECIFICATION Spec
CONSTANTS NMax = 7  SLo <- Neg10  SHi = 10  ELo <- Neg10  EHi = 12  VLo <- Neg20  VHi = 25
INVARIANT EveryAgrees
INVARIANT BetweenAgrees
CHECK_DEADLOCK FALSE
