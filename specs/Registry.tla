---------------------------------- MODULE Registry ----------------------------------
(* C14: absolute references keep resolving to the same function across probing.          *)
(* M level: what codefind's registry and ptera's code swapping do for one function f:    *)
(*   path -> current code            (code_registry.update_cache_entry in _apply)        *)
(*   code -> function objects        (codefind.get_functions: gc referrers of the code)  *)
(*   objects: the target f; the base copy (TransformSet.base_function, discard);         *)
(*            one helper per compiled variant (kept in TransformSet.transforms;          *)
(*            discard since fix 'keep absolute references resolvable', constant          *)
(*            HelperDiscard; the pinned tree had FALSE)                                   *)
(*   Resolve(ref) = the unique non-discard function whose code is the path's code        *)
(* A level: Resolve(ref(f)) = f in every reachable state, and activation by reference    *)
(* behaves as activation by name.                                                        *)
EXTENDS Integers, Sequences, FiniteSets, TLC
CONSTANTS MaxOps, HelperDiscard
\* probes on f capture variable v only: one variant {v}; count = number of active probes
VARIABLES count, variantBuilt, hist, resolved
vars == <<count, variantBuilt, hist, resolved>>
CodeOf == IF count = 0 THEN "orig" ELSE "variant"
\* function objects referring to code c that the resolver considers
Candidates(c) ==
  IF c = "orig" THEN {"f"}                                   \* base copy is discard
  ELSE {"f"} \cup (IF variantBuilt /\ ~HelperDiscard THEN {"helper"} ELSE {})
ResolveOK == Candidates(CodeOf) = {"f"}
Init == count = 0 /\ variantBuilt = FALSE /\ hist = <<>> /\ resolved = TRUE
Activate(how) == /\ hist' = Append(hist, <<"act", how>>)
                 /\ (how = "ref" => resolved' = (resolved /\ ResolveOK)) /\ (how = "name" => UNCHANGED resolved)
                 /\ IF how = "ref" /\ ~ResolveOK THEN UNCHANGED <<count, variantBuilt>>      \* refused: ambiguous
                    ELSE count' = count + 1 /\ variantBuilt' = TRUE
Deactivate == count > 0 /\ hist' = Append(hist, <<"deact">>) /\ count' = count - 1 /\ UNCHANGED <<variantBuilt, resolved>>
Call == hist' = Append(hist, <<"call">>) /\ UNCHANGED <<count, variantBuilt, resolved>>
Resolve == hist' = Append(hist, <<"resolve">>) /\ resolved' = (resolved /\ ResolveOK) /\ UNCHANGED <<count, variantBuilt>>
Next == Len(hist) < MaxOps /\ (Activate("name") \/ Activate("ref") \/ Deactivate \/ Call \/ Resolve)
Spec == Init /\ [][Next]_vars
AlwaysResolves == resolved
Export == Len(hist) = MaxOps => PrintT(<<"HIST", hist>>)
=============================================================================
