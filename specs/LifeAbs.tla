--------------------------------- MODULE LifeAbs ---------------------------------
(* Level A for probe life cycles (C05, C17, C10-refusal): who is active, who must      *)
(* receive what, what the process must look like when nobody is active.                *)
(* The probe universe and the function semantics of harness/worlds/lifeworld.py are    *)
(* written down here; TraceLife.tla validates real histories, LifeMech.tla checks the  *)
(* mechanism transcription against the same clauses.                                   *)
EXTENDS Integers, Sequences, FiniteSets, TLC

Probes == {"p1", "p2", "p3", "p4", "p5", "p6", "p7", "p8", "p9", "p10", "p11", "p12", "p13", "p14", "p15", "p16", "p17", "q2", "bad", "bad2", "bad3", "bad4"}
\* bad = 'f > zzz' (no such variable), bad2 = 'g > #nope' (no such meta-variable): refused with a selector error;
\* bad3 = 'f > lam > a' where lam is a lambda: refused with a type error AFTER f, the first function of the path, was tooled
\* bad4 = 'lam > g > a': refused with a type error BEFORE g, the later function of the path, is reached (nothing of g's was pushed)
\* p16 = Probe('f(a, b)', 'g > a'): one probe given a focus-free selector (total: one record when f returns) and a focused one
Valid(p) == p \notin {"bad", "bad2", "bad3", "bad4"}
RefusalClass(p) == IF p \in {"bad3", "bad4"} THEN "TypeError" ELSE "SelectorError"
\* h1, h2: two closures made by one def (one code object, two function objects): p12 = 'h1 > a', p13 = 'h2 > a'
Fns == {"f", "g", "h1", "h2"}
\* functions a probe's selector names (they are instrumented while the probe is active)
\* p10 = Probe('f > a', 'f(!a)'): one probe given the same selector twice, in two spellings (one interned object)
\* q2 = a plain overlay (no probing(), hence no tooling of its own) tapping 'f > b' on functions that were tooled in place
\* beforehand: only used in histories whose functions are pre-tooled
\* p14, p15 = probing('f > a', overridable=True) whose pipeline overrides a with the value it already has: both are listeners too
Touches(p) == CASE p = "q2" -> {} [] p \in {"p1", "p2", "p5", "p7", "p8", "p9", "p10", "p11", "p14", "p15", "bad", "bad3"} -> {"f"}
                [] p \in {"p3", "p6", "p16"} -> {"f", "g"}
                [] p = "bad4" -> {}
                [] p = "p17" -> {"g"}                 \* 'g > g > a': the same function at two levels of the path (never matches here)
                [] p \in {"p4", "bad2"} -> {"g"}
                [] p = "p12" -> {"h1"} [] p = "p13" -> {"h2"}

\* lifeworld: f(x): a = x+1; b = 2a; c: @T = x; c = c+1; r = g(b); return r      g(y): a = y+100; return a
\* p7 = 'f > c:@T' (only the annotated binding of c), p8 = 'f > c' (both bindings),
\* p9 = 'f(a as ta)' in total mode whose listener raises KeyError for ta = 13 (the call f(12))
\*            mk(k): def h(z): a = z + k; return a         h1 = mk(1000), h2 = mk(2000)
RetOf(fn, v) == CASE fn = "f" -> 2 * v + 102 [] fn = "g" -> v + 100 [] fn = "h1" -> v + 1000 [] fn = "h2" -> v + 2000
\* events (records as sets of <<key, value>>) that one call owes to probe p, in order
EventsOf(p, fn, v) ==
  CASE p \in {"p1", "p14", "p15"} /\ fn = "f" -> << {<<"a", v + 1>>} >>
    [] p \in {"p2", "q2"} /\ fn = "f" -> << {<<"b", 2 * v + 2>>} >>
    [] p = "p3" /\ fn = "f" -> << {<<"fa", v + 1>>, <<"a", 2 * v + 102>>} >>
    [] p = "p4" /\ fn = "f" -> << {<<"a", 2 * v + 102>>} >>
    [] p = "p4" /\ fn = "g" -> << {<<"a", v + 100>>} >>
    [] p = "p5" /\ fn = "f" -> << {<<"a", v + 1>>, <<"b", 2 * v + 2>>} >>
    [] p = "p6" /\ fn = "f" -> << {<<"a", 2 * v + 102>>} >>      \* f > g > a : f is only a waypoint
    [] p = "p7" /\ fn = "f" -> << {<<"c", v>>} >>
    [] p = "p8" /\ fn = "f" -> << {<<"c", v>>}, {<<"c", v + 1>>} >>
    [] p = "p9" /\ fn = "f" -> << {<<"ta", v + 1>>} >>
    [] p = "p11" /\ fn = "f" -> << {<<"v", v>>} >>                    \* 'f > $v:@T': the annotated binding of c, through its tag only
    [] p = "p10" /\ fn = "f" -> << {<<"a", v + 1>>}, {<<"a", v + 1>>} >>        \* once per selector the probe was given
    [] p = "p16" /\ fn = "f" -> << {<<"a", 2 * v + 102>>}, {<<"a", v + 1>>, <<"b", 2 * v + 2>>} >>     \* g's a inside f, then f's record at its return
    [] p = "p16" /\ fn = "g" -> << {<<"a", v + 100>>} >>
    [] p = "p12" /\ fn = "h1" -> << {<<"a", v + 1000>>} >>
    [] p = "p13" /\ fn = "h2" -> << {<<"a", v + 2000>>} >>
    [] OTHER -> <<>>

\* f(v) during which probe p is deactivated at the point where f calls g: what f itself binds comes before, what g binds after
BeforeG(q, v) == IF q \in {"p3", "p4", "p6", "p9", "p16"} THEN <<>> ELSE EventsOf(q, "f", v)
InG(q, v) == IF q = "p4" THEN EventsOf(q, "f", v) ELSE <<>>
\* a listener that raises: the exception reaches the caller of the probed function, nothing else changes
ListenerRaises(act, fn, v) == "p9" \in act /\ fn = "f" /\ v = 12

\* abstract state: status[p] \in {"new", "active", "done"}, expect[p] = events owed so far
Active(status) == {p \in Probes : status[p] = "active"}
=============================================================================
