-------------------------------- MODULE RegistryPaths --------------------------------
(* C14 (and the last clause of C13), M level for SEVERAL functions of one module: what     *)
(* codefind's path table and ptera's transform()/_apply do when functions that share a      *)
(* bare name, or that are nested in one another, are probed.                                *)
(*   module:  def top      def meth      class Outer: def meth (and Outer.Inner.meth)       *)
(*            def make: def inner  (made = make())      def inner     ...                    *)
(* codefind: currcodes : path -> code,  backcodes : code -> paths.                           *)
(*   import registers every function's code under its qualified path.                        *)
(*   transform(g) (first time a variant of g is built):                                      *)
(*     Hook   - exec of the compiled variant fires codefind's audit hook, which registers    *)
(*              the executed code as TOP-LEVEL code of the file: Bare(g) -> variant(g), and   *)
(*              the code objects nested in the variant under Bare(g).<name>                  *)
(*     Assim  - code_registry.assimilate(g's original code, (filename,)): the same paths      *)
(*              are pointed back at the original code objects - again as top-level code       *)
(*   _apply(g) - update_cache_entry: every path in backcodes[current code of g] now points   *)
(*              at the code being installed.                                                  *)
(* Mech = "tree" is the tree as it is; "assim-first" is the seeded reordering (C14-3);       *)
(* "none" is a registry discipline under which the A level holds (nothing but _apply         *)
(* touches the table).                                                                       *)
(* A level: Resolve(path of f) = {f} for every function, in every reachable state.           *)
(* TLC collects every violation kind with a shortest history; the histories are replayed in   *)
(* the real code (harness/drivers/ref_driver.py) and TraceRefs compares the real answers      *)
(* with this mechanism step by step.                                                         *)
EXTENDS RegistryOps
CONSTANTS MaxOps, Mech, Probed
VARIABLES st, hist
vars == <<st, hist>>
Init == st = State0 /\ hist = <<>>
Act(g) == Len(hist) < MaxOps /\ hist' = Append(hist, <<"act", g>>) /\ st' = ActOp(st, g, Mech)
Deact(g) == Len(hist) < MaxOps /\ st.count[g] > 0 /\ hist' = Append(hist, <<"deact", g>>) /\ st' = DeactOp(st, g)
Next == \E g \in Probed : Act(g) \/ Deact(g)
Spec == Init /\ [][Next]_vars
Viol == {ViolKind(st, f) : f \in {x \in Fns : ResolveSet(st, x) # {x}}}
AlwaysResolves == Viol = {}
Collect ==
  LET old == TLCGet(1)
      new == {s \in Viol : s \notin DOMAIN old}
  IN IF new = {} THEN TRUE ELSE TLCSet(1, [s \in DOMAIN old \cup new |-> IF s \in DOMAIN old THEN old[s] ELSE hist])
InitX == Init /\ TLCSet(1, <<>>)
Report == \A s \in DOMAIN TLCGet(1) : PrintT(<<"SIGNATURE", s, TLCGet(1)[s]>>)
Export == Len(hist) = MaxOps => PrintT(<<"HIST", hist>>)
=============================================================================
