-------------------------------- MODULE TraceXform --------------------------------
(* Skeleton programs: transparency (C01) and binding-history streams (C02).             *)
(* For one program and one control-flow path the harness records                        *)
(*   ref   : the run of the *twin* (same IR; real Python does every binding, the twin   *)
(*           reports it) - helper events, bind events, result;                          *)
(*   plain : the run of the untouched function (must equal ref with bind events hidden: *)
(*           otherwise the harness is broken, not ptera);                               *)
(*   runs  : the instrumented runs (tooled copy, in-place tooling, probes that override *)
(*           nothing on subsets of the variables) with the streams the probes received. *)
(* Transparency is refinement under hiding: the instrumented run must show exactly the  *)
(* observable events of ref, in order, and the same result.  A probe's stream must be   *)
(* the binding history of its focus variable read off ref.                              *)
EXTENDS Integers, Sequences, FiniteSets, TLC, Json, IOUtils, TLCExt, SequencesExt

Traces == JsonDeserialize(IOEnv.TRACE_FILE)
VARIABLES tid, ri, fails
vars == <<tid, ri, fails>>
T == Traces[tid]

Hide(log) == SelectSeq(log, LAMBDA e : e[1] # "bind")
\* index of the first difference of two sequences (0 = none)
RECURSIVE FirstDiff(_, _, _)
FirstDiff(a, b, i) == IF i > Len(a) /\ i > Len(b) THEN 0
                      ELSE IF i > Len(a) \/ i > Len(b) THEN i
                      ELSE IF a[i] # b[i] THEN i ELSE FirstDiff(a, b, i + 1)

\* ---------- binding history of focus v with context W, read off the reference log
RECURSIVE Stream(_, _, _, _, _)
Stream(log, i, v, W, latest) ==
  IF i > Len(log) THEN <<>>
  ELSE LET e == log[i] IN
       IF e[1] = "second-call" THEN Stream(log, i + 1, v, W, [n \in DOMAIN latest |-> "?"])   \* a new activation starts unbound
       ELSE IF e[1] # "bind" THEN Stream(log, i + 1, v, W, latest)
       ELSE LET l2 == [latest EXCEPT ![e[2]] = e[3]]
                here == IF e[2] = v
                        THEN << {<<v, e[3]>>} \cup { <<w, l2[w]>> : w \in {x \in W : l2[x] # "?" /\ x # v} } >>
                        ELSE <<>>
            IN here \o Stream(log, i + 1, v, W, l2)
Names == {T.names[i] : i \in DOMAIN T.names}
ExpStream(v, ctx) == Stream(T.ref.log, 1, v, {ctx[i] : i \in DOMAIN ctx}, [n \in Names |-> "?"])
\* generic capture, raw: every binding of every local, as <<name, value>>
ExpGeneric == LET b == SelectSeq(T.ref.log, LAMBDA e : e[1] = "bind") IN [i \in DOMAIN b |-> {<<b[i][2], b[i][3]>>}]
GotStream(s) == [i \in DOMAIN s |-> { <<s[i][j][1], s[i][j][2]>> : j \in DOMAIN s[i] }]
GotGeneric(s) == LET f == SelectSeq(s, LAMBDA r : \E j \in DOMAIN r : r[j][1] \in Names)
                 IN [i \in DOMAIN f |-> { <<f[i][j][1], f[i][j][2]>> : j \in DOMAIN f[i] }]
RECURSIVE IsSubseq(_, _)
IsSubseq(a, b) == IF a = <<>> THEN TRUE ELSE IF b = <<>> THEN FALSE
                  ELSE IF Head(a) = Head(b) THEN IsSubseq(Tail(a), Tail(b)) ELSE IsSubseq(a, Tail(b))
StreamVerdict(exp, got) ==
  IF exp = got THEN "ok"
  ELSE IF Len(got) < Len(exp) /\ IsSubseq(got, exp) THEN "missing"
  ELSE IF Len(exp) < Len(got) /\ IsSubseq(exp, got) THEN "extra"
  ELSE IF Len(exp) = Len(got) /\ {exp[i] : i \in DOMAIN exp} = {got[i] : i \in DOMAIN got} THEN "order"
  ELSE "wrong"

F(run, clause, a, b) == [run |-> run, clause |-> clause, a |-> a, b |-> b]

CheckRun(r, k) ==
  IF r.act_err # "" THEN << F(k, "Activation", r.act_err, "") >>
  ELSE LET want == Hide(T.ref.log)
           d == FirstDiff(r.log, want, 1)
           logf == IF d = 0 THEN <<>>
                   ELSE << F(k, "Log", IF d <= Len(want) THEN want[d][1] ELSE "end",
                                       IF d <= Len(r.log) THEN r.log[d][1] ELSE "end") >>
           resf == IF r.result = T.ref.result THEN <<>>
                   ELSE << F(k, "Result", T.ref.result[1], r.result[1] \o ":" \o r.result[Len(r.result)]) >>
           strf == IF d # 0 \/ r.result # T.ref.result \/ r.mode # "probe" THEN <<>>
                   ELSE FlattenSeq([i \in DOMAIN r.sels |->
                          LET s == r.sels[i]
                              v == IF s.focus = "$x" THEN StreamVerdict(ExpGeneric, GotGeneric(r.streams[i]))
                                   ELSE IF s.focus \notin Names THEN "ok"
                                   ELSE StreamVerdict(ExpStream(s.focus, s.ctx), GotStream(r.streams[i]))
                          IN IF v = "ok" THEN <<>> ELSE << F(k, "Stream", v, s.focus) >>])
       IN logf \o resf \o strf

Init == /\ tid \in 1..Len(Traces) /\ ri = 0 /\ TLCSet(tid, <<>>)
        /\ fails = IF Hide(T.ref.log) = T.plain.log /\ T.ref.result = T.plain.result THEN <<>>
                   ELSE << F(0, "TwinDrift", "", "") >>
Step == /\ ri < Len(T.runs) /\ ri' = ri + 1 /\ UNCHANGED tid
        /\ fails' = fails \o CheckRun(T.runs[ri + 1], ri + 1)
Spec == Init /\ [][Step]_vars
Progress == TLCSet(tid, <<ri, fails>>)
Post == \A i \in 1..Len(Traces) :
          LET r == TLCGet(i) IN
          /\ (r[1] # Len(Traces[i].runs) => PrintT(<<"INCOMPLETE", Traces[i].id, r[1]>>))
          /\ \A k \in DOMAIN r[2] : PrintT(<<"FAIL", Traces[i].id, r[2][k]>>)
=============================================================================
