---------------------------------- MODULE TraceTags ----------------------------------
(* C11: tag selectors capture exactly the bindings that carry the tag.                    *)
(* Generated function (harness/drivers/tag_driver.py), called with p = 3, q = 5:          *)
(*    def t(p: Tp, q: Tq) -> Tr:  a: Ta = p + 1; b = q + 2; a = a + b; c: Tc = a * 2      *)
(* Bindings in order: p, q, a (annotated), b, a (plain re-assignment), c.                  *)
EXTENDS Integers, Sequences, FiniteSets, TLC, Json, IOUtils, TLCExt
Cases == JsonDeserialize(IOEnv.TRACE_FILE)
VARIABLES cid, done
S(x) == {x[i] : i \in DOMAIN x}
\* <<name, value, tag set>> of every binding, in execution order
Bindings(cfg) == << <<"p", 3, S(cfg.p)>>, <<"q", 5, S(cfg.q)>>, <<"a", 4, S(cfg.a)>>, <<"b", 7, {}>>, <<"a", 11, {}>>, <<"c", 22, S(cfg.c)>> >>
Selected(cfg, T, v) == SelectSeq(Bindings(cfg), LAMBDA b : T \in b[3] /\ (v = "" \/ b[1] = v))
AnyTagged(cfg, T, v) == Selected(cfg, T, v) # <<>>
Names == {"p", "q", "a", "b", "c"}
\* stream entries: <<key, name, value>> triples (raw mode reports the variable's real name)
GotFor(c, key) == LET s == SelectSeq(c.stream, LAMBDA r : \E j \in DOMAIN r : r[j][1] = key /\ r[j][2] \in Names)
                  IN [i \in DOMAIN s |-> LET j == CHOOSE j \in DOMAIN s[i] : s[i][j][1] = key IN <<s[i][j][2], s[i][j][3]>>]
Want(cfg, T, v) == LET s == Selected(cfg, T, v) IN [i \in DOMAIN s |-> <<s[i][1], s[i][2]>>]
AllBinds(cfg) == [i \in DOMAIN Bindings(cfg) |-> <<Bindings(cfg)[i][1], Bindings(cfg)[i][2]>>]
Verdicts(c) ==
  CASE c.kind \in {"generic", "star", "named"} ->
         LET key == IF c.kind = "generic" THEN "x" ELSE IF c.kind = "star" THEN "/" ELSE c.var
             exists == c.kind # "named" \/ c.var \in Names
             should == AnyTagged(c.cfg, c.T, c.var)
         IN (IF should /\ c.outcome # "ok" THEN {"WronglyRefused"} ELSE {}) \cup
            (IF ~should /\ c.outcome = "ok" THEN {"NotRefused"} ELSE {}) \cup
            (IF ~should /\ c.outcome \notin {"ok", "SelectorError"} THEN {"WrongError"} ELSE {}) \cup
            (IF c.outcome = "ok" /\ GotFor(c, key) # Want(c.cfg, c.T, c.var) THEN {"TagCapture"} ELSE {}) \cup
            \* only the selected bindings are instrumented
            (IF c.outcome = "ok" /\ {c.interacted[i] : i \in DOMAIN c.interacted} \cap Names
                                     # {Want(c.cfg, c.T, c.var)[i][1] : i \in DOMAIN Want(c.cfg, c.T, c.var)}
             THEN {"OnlySelectedInstrumented"} ELSE {})
    [] c.kind = "all" ->
         (IF c.outcome # "ok" THEN {"WronglyRefused"} ELSE {}) \cup
         (IF c.outcome = "ok" /\ GotFor(c, "x") # AllBinds(c.cfg) THEN {"GenericSeesEveryBinding"} ELSE {})
    [] c.kind = "ctx" ->
         \* f($x:@T) > c : one event for c carrying the latest tagged binding before it
         LET sel == Selected(c.cfg, c.T, "")       \* the binding of c itself counts when it carries the tag
             should == AnyTagged(c.cfg, c.T, "")
         IN (IF should /\ c.outcome # "ok" THEN {"WronglyRefused"} ELSE {}) \cup
            (IF ~should /\ c.outcome = "ok" THEN {"NotRefused"} ELSE {}) \cup
            (IF c.outcome = "ok" /\ sel # <<>> /\ GotFor(c, "x") # << <<sel[Len(sel)][1], sel[Len(sel)][2]>> >> THEN {"TagContext"} ELSE {})
    [] c.kind = "fnpos" ->
         (IF \A i \in DOMAIN c.fired : c.fired[i] = (IF c.T \in S(c.rets[i]) THEN 1 ELSE 0) THEN {} ELSE {"FunctionPositionTag"})
Init == cid \in 1..Len(Cases) /\ done = FALSE
Check == ~done /\ done' = TRUE /\ UNCHANGED cid
Spec == Init /\ [][Check]_<<cid, done>>
Report == done => \A v \in Verdicts(Cases[cid]) : PrintT(<<"FAIL", Cases[cid].id, v>>)
=============================================================================
