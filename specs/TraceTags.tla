---------------------------------- MODULE TraceTags ----------------------------------
(* C11: tag selectors capture exactly the bindings that carry the tag.                    *)
(* Generated function (harness/drivers/tag_driver.py), called with p = 3, q = 5:          *)
(*    def t(p: Tp, q: Tq, *rest: Trest, **kw: Tkw) -> Tr:                                  *)
(*                                a: Ta = p + 1; b = q + 2; a = a + b; c: Tc = a * 2      *)
(*                                b: Tb2 = b + 1; c: Tc2 = c + 1; p: Tp2 = p + 1           *)
(* Bindings in order: p, q, a (annotated), b (plain), a (plain re-assignment), c, then b    *)
(* annotated after a plain binding, c annotated a second time, the parameter p re-annotated.*)
EXTENDS Integers, Sequences, FiniteSets, TLC, Json, IOUtils, TLCExt
Cases == JsonDeserialize(IOEnv.TRACE_FILE)
VARIABLES cid, done
S(x) == {x[i] : i \in DOMAIN x}
\* <<name, value, tag set>> of every binding, in execution order
\* (the variadic parameters *rest and **kw are bound after the others; their values - an empty tuple, an empty dict - are logged as -1)
Bindings(cfg) == << <<"p", 3, S(cfg.p)>>, <<"q", 5, S(cfg.q)>>, <<"rest", 0 - 1, S(cfg.rest)>>, <<"kw", 0 - 1, S(cfg.kw)>>, <<"a", 4, S(cfg.a)>>, <<"b", 7, {}>>, <<"a", 11, {}>>, <<"c", 22, S(cfg.c)>>,
                    <<"b", 8, S(cfg.b2)>>, <<"c", 23, S(cfg.c2)>>, <<"p", 4, S(cfg.p2)>> >>
Selected(cfg, T, v) == SelectSeq(Bindings(cfg), LAMBDA b : T \in b[3] /\ (v = "" \/ b[1] = v))
AnyTagged(cfg, T, v) == Selected(cfg, T, v) # <<>>
Names == {"p", "q", "a", "b", "c", "rest", "kw"}
\* stream entries: <<key, name, value>> triples (raw mode reports the variable's real name)
GotFor(c, key) == LET s == SelectSeq(c.stream, LAMBDA r : \E j \in DOMAIN r : r[j][1] = key /\ r[j][2] \in Names)
                  IN [i \in DOMAIN s |-> LET j == CHOOSE j \in DOMAIN s[i] : s[i][j][1] = key IN <<s[i][j][2], s[i][j][3]>>]
Want(cfg, T, v) == LET s == Selected(cfg, T, v) IN [i \in DOMAIN s |-> <<s[i][1], s[i][2]>>]
\* named deviation LastAnnotationWins (mechanism): the variable table keeps one annotation per variable - the last
\* one - and generic / named tag captures are registered from that table, so an earlier binding of the same
\* variable that carries T is not captured when the variable's last annotation lacks T
LastTags(cfg, v) == CASE v = "p" -> S(cfg.p2) [] v = "q" -> S(cfg.q) [] v = "a" -> S(cfg.a) [] v = "b" -> S(cfg.b2) [] v = "c" -> S(cfg.c2)
                      [] v = "rest" -> S(cfg.rest) [] v = "kw" -> S(cfg.kw)
WantLW(cfg, T, v) == LET s == SelectSeq(Selected(cfg, T, v), LAMBDA b : T \in LastTags(cfg, b[1])) IN [i \in DOMAIN s |-> <<s[i][1], s[i][2]>>]
AllBinds(cfg) == [i \in DOMAIN Bindings(cfg) |-> <<Bindings(cfg)[i][1], Bindings(cfg)[i][2]>>]
\* tag algebra with object identity (A level of TagHeap.tla): the heap of denotations after the first k operations
RECURSIVE AHeap(_, _)
AHeap(ops, k) == IF k = 0 THEN <<>>
                 ELSE LET h == AHeap(ops, k - 1)  o == ops[k]
                      IN Append(h, IF o.op = "tag" THEN {o.n} ELSE h[o.i] \cup h[o.j])
AlgebraStep(c, k) == LET want == AHeap(c.ops, k)
                         got == [x \in DOMAIN c.snaps[k] |-> S(c.snaps[k][x])]
                     IN (IF got[k] # want[k] THEN {"TagAlgebra:result"} ELSE {}) \cup
                        (IF \E x \in 1..(k - 1) : got[x] # want[x] THEN {"TagAlgebra:operand-changed"} ELSE {})
Verdicts(c) ==
  CASE c.kind = "algebra" -> UNION {AlgebraStep(c, k) : k \in DOMAIN c.ops}
    [] c.kind \in {"generic", "star", "named"} ->
         LET key == IF c.kind = "generic" THEN "x" ELSE IF c.kind = "star" THEN "/" ELSE c.var
             exists == c.kind # "named" \/ c.var \in Names
             should == AnyTagged(c.cfg, c.T, c.var)
             shouldLW == WantLW(c.cfg, c.T, c.var) # <<>>
         IN (IF should /\ c.outcome # "ok" THEN {IF shouldLW THEN "WronglyRefused" ELSE "WronglyRefused:last-annotation-wins"} ELSE {}) \cup
            (IF ~should /\ c.outcome = "ok" THEN {"NotRefused"} ELSE {}) \cup
            (IF ~should /\ c.outcome \notin {"ok", "SelectorError"} THEN {"WrongError"} ELSE {}) \cup
            (IF c.outcome = "ok" /\ GotFor(c, key) # Want(c.cfg, c.T, c.var)
             THEN {IF GotFor(c, key) = WantLW(c.cfg, c.T, c.var) THEN "TagCapture:last-annotation-wins" ELSE "TagCapture"} ELSE {}) \cup
            \* only the selected bindings are instrumented
            (IF c.outcome = "ok" /\ {c.interacted[i] : i \in DOMAIN c.interacted} \cap Names
                                     # {Want(c.cfg, c.T, c.var)[i][1] : i \in DOMAIN Want(c.cfg, c.T, c.var)}
             THEN {"OnlySelectedInstrumented"} ELSE {})
    [] c.kind = "all" ->
         (IF c.outcome # "ok" THEN {"WronglyRefused"} ELSE {}) \cup
         (IF c.outcome = "ok" /\ GotFor(c, "x") # AllBinds(c.cfg) THEN {"GenericSeesEveryBinding"} ELSE {})
    [] c.kind = "ctx" ->
         \* f($x:@T) > c : one event per binding of c (positions 8 and 10) carrying the latest tagged binding so far
         \* (the binding of c itself counts when it carries the tag), omitted when there is none yet
         LET B == Bindings(c.cfg)
             Tagged(k, lw) == {i \in 1..k : c.T \in B[i][3] /\ (~lw \/ c.T \in LastTags(c.cfg, B[i][1]))}
             At(k, lw) == IF Tagged(k, lw) = {} THEN <<"-", 0>>
                          ELSE LET m == CHOOSE i \in Tagged(k, lw) : \A j \in Tagged(k, lw) : j <= i IN <<B[m][1], B[m][2]>>
             want == <<At(8, FALSE), At(10, FALSE)>>
             wantLW == <<At(8, TRUE), At(10, TRUE)>>
             XOf(r) == LET J == {j \in DOMAIN r : r[j][1] = "x"} IN IF J = {} THEN <<"-", 0>> ELSE LET j == CHOOSE j \in J : TRUE IN <<r[j][2], r[j][3]>>
             got == [i \in DOMAIN c.stream |-> XOf(c.stream[i])]
             should == AnyTagged(c.cfg, c.T, "")
             shouldLW == WantLW(c.cfg, c.T, "") # <<>>
         IN (IF should /\ c.outcome # "ok" THEN {IF shouldLW THEN "WronglyRefused" ELSE "WronglyRefused:last-annotation-wins"} ELSE {}) \cup
            (IF ~should /\ c.outcome = "ok" THEN {"NotRefused"} ELSE {}) \cup
            (IF c.outcome = "ok" /\ got # want THEN {IF got = wantLW THEN "TagContext:last-annotation-wins" ELSE "TagContext"} ELSE {})
    [] c.kind = "decl" ->
         \* def u(p: Tp): k = 1; z: Tz; r = z + p; return r     called with p = 3, the probe overrides every capture with 70
         LET zs == c.T \in S(c.cfg.z)  ps == c.T \in S(c.cfg.p)
         IN IF ~zs /\ ~ps THEN (IF c.outcome = "SelectorError" THEN {} ELSE IF c.outcome = "ok" THEN {"NotRefused"} ELSE {"WrongError"})
            ELSE IF zs THEN (IF c.outcome = "ok" /\ c.result = 70 + (IF ps THEN 70 ELSE 3)
                                /\ c.names = (IF ps THEN <<"p", "z">> ELSE <<"z">>) THEN {} ELSE {"DeclaredTaggedSupplied"})
            ELSE (IF c.outcome = "NameError" /\ c.names = <<"p">> THEN {} ELSE {"DeclaredUntaggedLeftAlone"})
    [] c.kind = "fnpos" ->
         \* c is bound twice per call
         (IF \A i \in DOMAIN c.fired : c.fired[i] = (IF c.T \in S(c.rets[i]) THEN 2 ELSE 0) THEN {} ELSE {"FunctionPositionTag"})
Init == cid \in 1..Len(Cases) /\ done = FALSE
Check == ~done /\ done' = TRUE /\ UNCHANGED cid
Spec == Init /\ [][Check]_<<cid, done>>
Report == done => \A v \in Verdicts(Cases[cid]) : PrintT(<<"FAIL", Cases[cid].id, v>>)
=============================================================================
